"""Scripted inferior for the fake gdb: builds libwayland closures in ctypes memory
from structured messages and presents the frames the plugin's breakpoints expect.

Structured closure (JSON-able):
  {'sent': bool, 'side': 'client'|'server', 'via': 'invoke'|'dispatch'|'send'|'queue',
   'conn': int (connection index), 'thread': int, 'iface': target interface name,
   'id': sender id, 'name': message name, 'sig': signature, 'args': [arg...]}
  arg: ['int', v] 'i' | ['uint', v] 'u' | ['fixed', raw] 'f' | ['str', text|None] 's'
       | ['obj', iface|None, id] 'o' (iface None: NULL entry in the types array)
       | ['nil', declared iface|None] 'o' with a NULL object
       | ['new', iface|None, id] 'n' | ['array', [ints]] 'a' | ['fd', n] 'h'
"""
import ctypes as C

import gdb

CODE = {'int': 'i', 'uint': 'u', 'fixed': 'f', 'str': 's', 'obj': 'o', 'nil': 'o', 'new': 'n', 'array': 'a', 'fd': 'h'}


def signature_of(args, version=None, optional=()):
    s = '' if version is None else str(version)
    for i, a in enumerate(args):
        if i in optional:
            s += '?'
        s += CODE[a[0]]
    return s


class Inferior:
    """Owns the memory of one scripted inferior."""

    def __init__(self):
        self.keep = []
        self.ifaces = {}
        self.conns = {}

    def iface(self, name):
        if name not in self.ifaces:
            i = gdb.wl_interface(name.encode(), 1, 0, None, 0, None)
            self.ifaces[name] = i
            self.keep.append(i)
        return self.ifaces[name]

    def connection(self, index):
        """-> dict with wl_connection, wl_display (client side), wl_client (server side)"""
        if index not in self.conns:
            conn = gdb.wl_connection()
            conn.fd = 100 + index
            disp = gdb.wl_display()
            disp.connection = C.pointer(conn)
            client = gdb.wl_client()
            client.connection = C.pointer(conn)
            self.conns[index] = {'conn': conn, 'display': disp, 'client': client}
            self.keep += [conn, disp, client]
        return self.conns[index]

    def realloc(self, index):
        """The program disconnected and connected again: the same wl_display / wl_client now points at a
        newly allocated wl_connection (a different address)."""
        cn = self.connection(index)
        conn = gdb.wl_connection()
        conn.fd = 200 + index
        self.keep.append(cn['conn'])
        self.keep.append(conn)
        cn['conn'] = conn
        cn['display'].connection = C.pointer(conn)
        cn['client'].connection = C.pointer(conn)

    def new_connection_at_same_address(self, index):
        """libwayland freed the connection and allocated a new one at the same address:
        the memory is simply reused."""
        return self.connection(index)

    def closure(self, m):
        """Lay the closure of structured message m out in memory; -> (closure, target object or None)"""
        args = m['args']
        n = len(args)
        types = (C.POINTER(gdb.wl_interface) * max(n, 1))()
        c = gdb.wl_closure()
        received_on_client = (not m['sent']) and m['side'] == 'client'
        for i, a in enumerate(args):
            k = a[0]
            if k == 'int':
                c.args[i].i = a[1]
            elif k == 'uint':
                c.args[i].u = a[1]
            elif k == 'fixed':
                c.args[i].f = a[1]
            elif k == 'fd':
                c.args[i].h = a[1]
            elif k == 'str':
                if a[1] is None:
                    c.args[i].s = None
                else:
                    b = C.create_string_buffer(a[1].encode())
                    self.keep.append(b)
                    c.args[i].s = C.cast(b, C.c_char_p)
            elif k == 'nil':
                c.args[i].o = None
                if a[1] is not None:
                    types[i] = C.pointer(self.iface(a[1]))
            elif k == 'obj':
                # the object itself always knows its interface; the *declared* type may be absent
                o = gdb.wl_object(C.pointer(self.iface(a[1] or 'zz_actual')), None, a[2])
                self.keep.append(o)
                c.args[i].o = C.pointer(o)
                if a[1] is not None:
                    types[i] = C.pointer(self.iface(a[1]))
            elif k == 'new':
                if a[1] is not None:
                    types[i] = C.pointer(self.iface(a[1]))
                if received_on_client:
                    # libwayland has already turned the id into a proxy
                    o = gdb.wl_object(C.pointer(self.iface(a[1] or 'zz_actual')), None, a[2])
                    self.keep.append(o)
                    c.args[i].o = C.pointer(o)
                else:
                    c.args[i].n = a[2]
            elif k == 'array':
                vals = a[1]
                buf = (C.c_int32 * max(len(vals), 1))(*vals)
                arr = gdb.wl_array(4 * len(vals), 4 * max(len(vals), 1), C.cast(buf, C.c_void_p))
                self.keep += [buf, arr]
                c.args[i].a = C.pointer(arr)
            else:
                raise ValueError(a)
        name = C.create_string_buffer(m['name'].encode())
        sig = C.create_string_buffer(m['sig'].encode())
        msg = gdb.wl_message(C.cast(name, C.c_char_p), C.cast(sig, C.c_char_p),
                             C.cast(types, C.POINTER(C.POINTER(gdb.wl_interface))))
        c.count = n
        c.message = C.pointer(msg)
        c.opcode = 0
        c.sender_id = m['id']
        self.keep += [types, name, sig, msg, c]
        return c

    def present(self, m):
        """Select the thread and frame GDB would show when the plugin's breakpoint for this
        message is hit.  -> breakpoint location name"""
        cn = self.connection(m['conn'])
        c = self.closure(m)
        gdb._state.thread = gdb._Thread(m.get('thread', 1))
        cv = gdb.ptr_to(c, gdb.wl_closure)
        if m['sent']:
            outer = gdb.Frame('wl_closure_queue' if m.get('via') == 'queue' else 'wl_closure_send',
                              {'closure': cv, 'connection': gdb.ptr_to(cn['conn'], gdb.wl_connection)})
            gdb._state.frame = gdb.Frame('serialize_closure', {'closure': cv}, outer)
            return 'serialize_closure'
        bp = 'wl_closure_dispatch' if m.get('via') == 'dispatch' else 'wl_closure_invoke'
        # a process that is client and server at once (nested compositor): the other side's dispatcher may be further out
        # on the same stack (a listener for a host event runs the server's own loop, or a request handler does a
        # round trip to the host); the side of a closure is that of the dispatcher that called it
        other = self.connection(m['conn'] + 7) if m.get('nested') else None
        if m['side'] == 'client':
            target = gdb.wl_object(C.pointer(self.iface(m['iface'])), None, m['id'])
            self.keep.append(target)
            far = gdb.Frame('handle_client_request', {}, gdb.Frame('wl_client_connection_data', {})) if other else None
            outer = gdb.Frame('dispatch_event', {'display': gdb.ptr_to(cn['display'], gdb.wl_display), 'closure': cv}, far)
            tv = gdb.ptr_to(target, gdb.wl_object)
        else:
            res = gdb.wl_resource()
            res.object.interface = C.pointer(self.iface(m['iface']))
            res.object.id = m['id']
            res.client = C.pointer(cn['client'])
            self.keep.append(res)
            far = gdb.Frame('host_event_listener', {}, gdb.Frame(
                'dispatch_event', {'display': gdb.ptr_to(other['display'], gdb.wl_display), 'closure': cv})) if other else None
            outer = gdb.Frame('wl_client_connection_data', {}, far)
            tv = gdb.Value(gdb.Type(gdb.wl_object, 1), val=C.addressof(res.object))
        gdb._state.frame = gdb.Frame(bp, {'closure': cv, 'target': tv}, outer)
        return bp

    def present_destroy(self, index, thread=1):
        cn = self.connection(index)
        gdb._state.thread = gdb._Thread(thread)
        gdb._state.frame = gdb.Frame('wl_connection_destroy', {'connection': gdb.ptr_to(cn['conn'], gdb.wl_connection)})
        return 'wl_connection_destroy'


def make_plugin(filt=None, stop=None, color=False, unprocessed=True):
    """-> dict(out, err, plugin, ctl, cm, bps, commands, clock)"""
    from . import sut
    from backends.gdb_plugin import plugin, extract
    from core import ConnectionManager, matcher
    from core.output import stream, Output
    from frontends.tui import Controller
    sut.reset_globals(color)
    sut.ensure_protocols()
    gdb._state.reset()
    # every scripted inferior is a new process for the plugin: module-level state of the extractor (offset caches and
    # whatever else it may keep) must not be carried from one history to the next - addresses do get reused
    import importlib
    importlib.reload(extract)
    t = [0.0]

    def clock():
        t[0] += 0.0001
        return t[0]
    # GDB mode stamps messages with the wall clock: the harness owns it
    for mod in (plugin, extract):
        if hasattr(mod, 'time_now'):
            mod.time_now = clock
    out, err = stream.String(), stream.String()
    o = Output(False, unprocessed, out, err)
    cm = ConnectionManager()
    if isinstance(filt, str) or isinstance(stop, str):
        filt, stop = sut.matchers_from_command_line(filt, stop, color, mode_words=())
    ctl = Controller(o, cm, filt if filt is not None else matcher.always, stop if stop is not None else matcher.never)
    pl = plugin.Plugin(o, cm, ctl, ctl)
    bps = {}
    for b in gdb.breakpoints():
        bps[b.location] = b
    return {'out': out, 'err': err, 'plugin': pl, 'ctl': ctl, 'cm': cm, 'bps': bps, 'commands': dict(gdb._state.commands),
            'clock': t, 'output': o}


def closure_from_print(m, side='client', conn=None, thread=1, repo=None):
    """Convert a structured *printed* message (the wlprint format used for logs) into
    the closure libwayland would hold for it, so the same history can be fed to GDB
    mode and to log mode.  Declared interfaces of nil / object arguments come from the
    independent XML reader."""
    from .ref import protoxml
    from . import sut
    top = protoxml.shipped(repo or sut.REPO)
    decl = None
    if m['iface'] in top:
        decl = top[m['iface']][0].messages.get(m['name'])
    args = []
    for i, a in enumerate(m['args']):
        d = decl[i] if decl and i < len(decl) else (None, None, None, None)
        k = a[0]
        if k == 'int':
            args.append(['int', a[1]] if a[1] < 0 else ['uint', a[1]])
        elif k in ('fixed', 'fd', 'str'):
            args.append(list(a))
        elif k == 'nil':
            args.append(['nil', d[2]])
        elif k == 'obj':
            args.append(['obj', a[1], a[2]])
        elif k == 'new':
            args.append(['new', a[1], a[2]])
        elif k == 'array':
            args.append(['array', [0] * (a[1] // 4)])
        else:
            raise ValueError(a)
    sent = m['sent']
    via = 'send' if sent else 'invoke'
    return {'sent': sent, 'side': side, 'via': via, 'conn': conn if conn is not None else int(m.get('conn') or 0),
            'thread': thread, 'iface': m['iface'], 'id': m['id'], 'name': m['name'], 'sig': signature_of(args), 'args': args}
