"""Binding to the code under test (wmww/wayland-debug in $VERIF_REPO, default /repo).

Everything here imports the repository's *working tree at the time of the run*.
Only documented / property-named entry points are used.  Global state that
survives between executions is reset by `reset_globals()`.
"""
import io
import logging
import os
import sys

REPO = os.environ.get('VERIF_REPO', '/repo')
VERIF = os.path.dirname(os.path.dirname(os.path.abspath(__file__)))

_bound = False


def bind(fake_gdb=False):
    """Make the repository importable.  Must be called before any repo import."""
    global _bound
    if _bound:
        return
    _bound = True
    sys.dont_write_bytecode = True
    if fake_gdb:
        sys.path.insert(0, os.path.join(VERIF, 'mc', 'fakegdb'))
    sys.path.insert(0, REPO)
    sys.argv = ['main.py']
    # main.py calls logging.basicConfig(); we never import main at bind time.
    root = logging.getLogger()
    for h in list(root.handlers):
        root.removeHandler(h)
    root.addHandler(LOG)
    root.setLevel(logging.WARNING)


class _ListHandler(logging.Handler):
    """Collects (level, message) of every log record emitted by the code under test."""

    def __init__(self):
        super().__init__(level=logging.DEBUG)
        self.records = []

    def emit(self, record):
        try:
            msg = record.getMessage()
        except Exception:  # pragma: no cover
            msg = str(record.msg)
        self.records.append((record.levelname, msg))

    def take(self):
        r, self.records = self.records, []
        return r


LOG = _ListHandler()


def reset_globals(color=False):
    """Reset module-level state of the code under test between executions."""
    from core.wl import message as wm
    from core import util
    if hasattr(wm.Message, 'base_time'):
        wm.Message.base_time = None
    if hasattr(util, 'set_color_output'):
        util.set_color_output(bool(color))
    # keep the logging threshold where the tool's main() leaves it (WARN)
    logging.getLogger().setLevel(logging.WARNING)
    LOG.take()


_protocols_loaded = False


def ensure_protocols():
    """Load the shipped protocol descriptions exactly as main() does (once per process)."""
    global _protocols_loaded
    from core.wl import protocol
    from core.output import Output, stream
    if not _protocols_loaded or not protocol.interfaces:
        protocol.dump_all()
        o = Output(False, True, stream.String(), stream.String())
        protocol.load_all(o)
        _protocols_loaded = True


def matchers_from_command_line(filt, stop, color=False, mode_words=('-l', '/nonexistent/verif.log')):
    """-> (filter matcher, breakpoint matcher) as parse_args() produces them for `-f filt -b stop`; an argument that is
    not text is passed through unchanged."""
    import contextlib
    import io
    from frontends.tui import parse_args
    from core import util
    words = ['wayland-debug', '--color' if color else '-C']
    if isinstance(filt, str):
        words += ['-f', filt]
    if isinstance(stop, str):
        words += ['-b', stop]
    if not util.check_gdb():
        words += list(mode_words)  # inside GDB the instance gets only the words left of -g: no mode option
    so, se = io.StringIO(), io.StringIO()
    try:
        with contextlib.redirect_stdout(so), contextlib.redirect_stderr(se):
            args = parse_args(words)
    except SystemExit as e:
        raise RuntimeError('parse_args(%r) left through exit(%r): %s' % (words, e.code, (so.getvalue() + se.getvalue())[-300:]))
    util.set_color_output(bool(color))
    logging.getLogger().setLevel(logging.WARNING)
    LOG.take()
    return (args.filter_matcher if isinstance(filt, str) else filt), (args.stop_matcher if isinstance(stop, str) else stop)


class Session:
    """The log-mode pipeline as the user sees it:
    lines -> Parser -> ConnectionManager -> Controller -> out / err streams.
    """

    def __init__(self, color=False, filt=None, stop=None, unprocessed=True, protocols=True):
        from core import ConnectionManager, matcher
        from core.output import stream, Output
        from frontends.tui import Controller
        from backends.libwayland_debug_output import parse
        reset_globals(color)
        if protocols:
            ensure_protocols()
        self.out = stream.String()
        self.err = stream.String()
        self.output = Output(False, unprocessed, self.out, self.err)
        self.cm = ConnectionManager()
        if isinstance(filt, str) or isinstance(stop, str):
            # matchers given as text come in the way -f / -b values do: through the tool's own command-line parsing
            filt, stop = matchers_from_command_line(filt, stop, color)
        self.ctl = Controller(self.output, self.cm,
                              filt if filt is not None else matcher.always,
                              stop if stop is not None else matcher.never)
        self.parser = parse.Parser(self.output, self.cm)
        self._o = 0
        self._e = 0

    # --- input -----------------------------------------------------------
    def feed(self, text):
        """Feed text (one or more lines) through the real parser loop."""
        self.parser.parse_all(io.StringIO(text))
        return self.take()

    def feed_line(self, line):
        return self.feed(line if line.endswith('\n') else line + '\n')

    def close(self):
        self.parser.cleanup()
        return self.take()

    def cmd(self, c):
        self.ctl.process_command(c)
        return self.take()

    # --- output ----------------------------------------------------------
    def take(self):
        """(new out lines, new err lines) since the last take()."""
        o = self.out.buffer[self._o:]
        e = self.err.buffer[self._e:]
        # drop what has been read: the String stream appends by copying
        self.out.buffer = ''
        self.err.buffer = ''
        self._o = 0
        self._e = 0
        return _lines(o), _lines(e)


def _lines(s):
    if not s:
        return []
    assert s.endswith('\n')
    return s[:-1].split('\n')


def strip_sgr(s):
    import re
    return re.sub(r'\x1b\[[0-9;]*m', '', s)


def exc_violation(case, kind='exception', extra=None):
    """Call inside `except Exception:`.  An exception raised by the code under test
    (innermost non-library frame inside the repository) is a violation - the expected
    observation was not produced; an exception raised by the harness itself is a
    harness error and is re-raised."""
    import traceback
    from .report import Violation
    et, ev, tb = sys.exc_info()
    repo = os.path.realpath(REPO) + os.sep
    verif = os.path.realpath(VERIF) + os.sep
    fake = os.path.join(verif, 'mc', 'fakegdb') + os.sep
    for fr in reversed(traceback.extract_tb(tb)):
        f = os.path.realpath(fr.filename)
        if f.startswith(fake):
            continue     # the GDB model answering (e.g. gdb.MemoryError on a null dereference) is environment, like a library
        if f.startswith(repo):
            d = {'exception': '%s: %s' % (et.__name__, str(ev)[:300]), 'traceback': traceback.format_exc()[-1500:]}
            if extra:
                d.update(extra)
            return Violation(kind, case, d)
        if f.startswith(verif):
            raise
    raise
