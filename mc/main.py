"""CLI:  python -m mc.main Cxx [--tier quick|thorough] [--replay FILE]"""
import argparse
import importlib
import json
import os
import sys
import traceback

from . import report
from .explore import HarnessError


def _debug_hook():
    # `kill -USR1 <pid>` prints where a (worker) process is: for looking into a run that does not come back
    import faulthandler
    import signal
    faulthandler.register(signal.SIGUSR1, all_threads=True)


def main(argv=None):
    _debug_hook()
    ap = argparse.ArgumentParser()
    ap.add_argument('property')
    ap.add_argument('--tier', default=os.environ.get('VERIF_TIER') or 'quick', choices=['quick', 'thorough'])
    ap.add_argument('--replay')
    a = ap.parse_args(argv)
    pid = a.property.upper()
    try:
        seed = int(os.environ.get('VERIF_SEED') or 0)
    except ValueError:
        seed = 0
    try:
        mod = importlib.import_module('mc.props.' + pid.lower())
    except ModuleNotFoundError:
        print('HARNESS-ERROR no check for property %s' % pid)
        return 2
    if a.replay:
        with open(a.replay) as f:
            doc = json.load(f)
        try:
            vs = mod.replay(doc['case'])
        except HarnessError as e:
            print('HARNESS-ERROR property=%s %s' % (pid, e))
            return 2
        vs = [v for v in vs if v.kind == doc.get('kind', v.kind)]
        if not vs and doc.get('context'):
            # the witness fails only after other cases (state carried inside the tool): re-run the exploration
            run = report.Run(pid, doc['context'].get('tier', a.tier), seed)
            mod.run(run, run.tier, seed)
            want = report.Violation(doc['kind'], doc['case'], {}).key()
            vs = [v for v in run.violations.values() if v.key() == want]
        if vs:
            for v in vs[:3]:
                print('VIOLATION property=%s replay=%s' % (pid, a.replay))
                print('  kind=%s detail=%s' % (v.kind, json.dumps(v.detail, default=repr, sort_keys=True)[:2000]))
            return 1
        print('replay: property %s holds on the recorded case' % pid)
        return 0
    run = report.Run(pid, a.tier, seed)
    try:
        mod.run(run, a.tier, seed)
        rc = run.finish(getattr(mod, 'replay', None))
    except HarnessError as e:
        print('HARNESS-ERROR property=%s\n%s' % (pid, e))
        return 2
    except Exception:
        print('HARNESS-ERROR property=%s\n%s' % (pid, traceback.format_exc()))
        return 2
    c = run.cov
    print('%s tier=%s seed=%d: evaluations=%d states=%d transitions=%d validated=%d nontrivial=%d '
          'outcomes=%d exhaustive=%s violations=%d wall=%.1fs'
          % (pid, a.tier, seed, c['evaluations'], c['states'], c['transitions'],
             c['traces_validated_against_impl'], c['distinct_nontrivial'], run.outcomes,
             run.exhaustive, len(run.violations), __import__('time').time() - run.t0))
    return rc


if __name__ == '__main__':
    sys.exit(main())
