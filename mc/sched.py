"""Controlled scheduler for the one real thread of wayland-debug (run mode).

`run_program` starts a helper thread that runs the child and closes the write end of
a pipe while the main thread parses the read end.  For schedule exploration the
harness replaces, in the runner module's namespace only, `os` (pipe / fdopen / close
/ environ over an in-memory bounded ModelPipe), `subprocess` (a scripted child - run
inline by `run`, as a scheduled thread of its own by `Popen` - that performs a list of
writes, may close its standard error early and linger, and returns a status) and
`threading` (a Thread whose start / join / is_alive are scheduling points).  The pipe
reaches end of file when every holder of the write end (the runner's descriptor, the
child's copy) has closed it.  Model time advances only when no thread can run: to the
earliest deadline among sleepers and timed joins.  Both threads run the real code under
sys.settrace; every *line event in a frame of runner.py* and every model-pipe
operation hands the baton back to the scheduler.  Waiting is visible: readline on an
empty open pipe, a write to a full pipe and a join on a live thread block.

A schedule is a list of choices (index into the canonical list of enabled threads:
the running thread first if still enabled, then the others).  Iterative context
bounding: switching away from a thread that is still enabled costs one preemption.
"""
import collections
import sys
import threading as real_threading
import types


class Deadlock(Exception):
    pass


class BadChoice(Exception):
    pass


class Sched:
    def __init__(self, choices):
        self.choices = list(choices)
        self.trace = []
        self.points = []          # (running thread, enabled in canonical order)
        self.threads = collections.OrderedDict()
        self.error = None
        self.now = 0.0            # model time, seconds

    def register(self, name):
        self.threads[name] = {'sem': real_threading.Semaphore(0), 'blocked': None, 'done': False, 'deadline': None}

    def runnable(self):
        """Enabled threads; when there are none, time passes until the earliest deadline of a waiting thread."""
        en = self.enabled()
        while not en:
            ds = [t['deadline'] for t in self.threads.values()
                  if not t['done'] and t['blocked'] is not None and t['deadline'] is not None and t['deadline'] > self.now]
            if not ds:
                break
            self.now = min(ds)
            en = self.enabled()
        return en

    def enabled(self, excluding=None):
        out = []
        for n, t in self.threads.items():
            if t['done'] or n == excluding:
                continue
            if t['blocked'] is not None and not t['blocked']():
                continue
            out.append(n)
        return out

    def point(self, me, blocked=None, deadline=None):
        """Called by the running thread `me`; may hand the baton to another thread."""
        self.threads[me]['blocked'] = blocked
        self.threads[me]['deadline'] = deadline
        en = self.runnable()
        if not en:
            self.error = Deadlock('no enabled thread: ' + repr({n: (t['done'], t['blocked'] is not None)
                                                                for n, t in self.threads.items()}))
            raise self.error
        order = ([me] if me in en else []) + sorted(x for x in en if x != me)
        i = len(self.trace)
        c = self.choices[i] if i < len(self.choices) else 0
        if c >= len(order):
            raise BadChoice('choice %d out of range at point %d' % (c, i))
        self.trace.append(c)
        self.points.append((me, tuple(order)))
        nxt = order[c]
        if nxt != me:
            self.threads[nxt]['sem'].release()
            self.threads[me]['sem'].acquire()
            if self.error is not None and not isinstance(self.error, Deadlock):
                pass
        self.threads[me]['blocked'] = None
        self.threads[me]['deadline'] = None

    def finish(self, me):
        self.threads[me]['done'] = True
        en = self.runnable()
        if en:
            self.threads[sorted(en)[0]]['sem'].release()

    def preemptions_before(self):
        """cost[i] = preemptions among choices before point i"""
        costs, pre = [], 0
        for (me, order), c in zip(self.points, self.trace):
            costs.append(pre)
            if c != 0 and order[0] == me:
                pre += 1
        return costs, pre


class ModelPipe:
    def __init__(self, cap):
        self.buf = collections.deque()
        self.cap = cap
        self.runner_closed = False      # wayland-debug's own descriptor of the write end
        self.child_open = False         # the child's copy (its standard error)
        self.pending = ''
        self.reads = 0

    @property
    def wclosed(self):
        return self.runner_closed and not self.child_open


def make_env(S, runner_file, script, status, cap, observe):
    """-> (fake os, fake subprocess, fake threading, tracer)"""
    pipe = ModelPipe(cap)

    def me():
        return real_threading.current_thread().name

    def tracer(frame, event, arg):
        if frame.f_code.co_filename != runner_file:
            return None

        def local(frame, event, arg):
            if event == 'line':
                S.point(me())
            return local
        return local

    class FakeFile:
        def __enter__(self):
            return self

        def __exit__(self, *a):
            return False

        def readline(self, size=-1):
            while True:
                if '\n' in pipe.pending:
                    i = pipe.pending.index('\n')
                    if size is not None and 0 <= size < i + 1:
                        i = size - 1
                    l, pipe.pending = pipe.pending[:i + 1], pipe.pending[i + 1:]
                    return l
                S.point(me(), blocked=lambda: bool(pipe.buf) or pipe.wclosed)
                if pipe.buf:
                    pipe.pending += pipe.buf.popleft()
                    continue
                if pipe.wclosed:
                    l, pipe.pending = pipe.pending, ''
                    return l

        def close(self):
            pass

    def fake_close(fd):
        S.point(me())
        pipe.runner_closed = True
        observe('close_write_end', S.threads.get('subprocess', {}).get('returncode_published'))

    fos = types.SimpleNamespace(environ={'PATH': '/bin', 'LD_LIBRARY_PATH': ''}, pipe=lambda: (100, 101),
                                fdopen=lambda fd, mode='r', **kw: FakeFile(), close=fake_close)

    class CP:
        pass

    def child_body(who):
        """The scripted program: writes; ('close',) closes its standard error; ('sleep', s) lingers; its copy of the
        write end goes away when it exits."""
        for tok in script:
            if isinstance(tok, tuple) and tok[0] == 'close':
                S.point(who)
                pipe.child_open = False
            elif isinstance(tok, tuple) and tok[0] == 'sleep':
                wake = S.now + tok[1]
                S.point(who, blocked=lambda: S.now >= wake, deadline=wake)
            elif pipe.child_open:
                S.point(who, blocked=lambda: len(pipe.buf) < pipe.cap)
                pipe.buf.append(tok)
        pipe.child_open = False

    def spawned(args, stderr, env, kw):
        observe('child_started', {'args': list(args), 'WAYLAND_DEBUG': (env or {}).get('WAYLAND_DEBUG'), 'stderr': stderr,
                                  'stdout_redirected': 'stdout' in kw})
        pipe.child_open = True

    def frun(args, stderr=None, env=None, bufsize=None, **kw):
        spawned(args, stderr, env, kw)
        child_body(me())
        r = CP()
        r.returncode = status
        r.args = args
        return r

    class FPopen:
        """subprocess.Popen: the child runs as a scheduled thread of its own."""

        def __init__(self, args, stderr=None, env=None, bufsize=None, **kw):
            spawned(args, stderr, env, kw)
            self.args = args
            self.pid = 4243
            self.returncode = None
            self.stdin = self.stdout = self.stderr = None
            S.register('child')

            def body():
                S.threads['child']['sem'].acquire()
                try:
                    child_body('child')
                except (Deadlock, BadChoice):
                    pass
                finally:
                    S.finish('child')
            real_threading.Thread(target=body, name='child', daemon=True).start()
            S.point(me())

        def _done(self):
            return S.threads['child']['done']

        def poll(self):
            S.point(me())
            if self._done():
                self.returncode = status
            return self.returncode

        def wait(self, timeout=None):
            t_end = None if timeout is None else S.now + timeout
            S.point(me(), blocked=lambda: self._done() or (t_end is not None and S.now >= t_end), deadline=t_end)
            if not self._done():
                import subprocess as real_subprocess
                raise real_subprocess.TimeoutExpired(self.args, timeout)
            self.returncode = status
            return status

        def communicate(self, input=None, timeout=None):
            self.wait(timeout)
            return None, None

        def __enter__(self):
            return self

        def __exit__(self, *a):
            self.wait()
            return False

        def kill(self):
            pass
        terminate = kill
    import subprocess as _real_subprocess
    fsub = types.SimpleNamespace(run=frun, Popen=FPopen, PIPE=-1, DEVNULL=-3, STDOUT=-2, TimeoutExpired=_real_subprocess.TimeoutExpired,
                                 CalledProcessError=_real_subprocess.CalledProcessError, CompletedProcess=CP)

    class FThread:
        def __init__(self, name=None, target=None, daemon=None, args=(), kwargs=None):
            self.name = name or 'subprocess'
            self.target = target
            self.t = None

        def start(self):
            S.register(self.name)

            def body():
                S.threads[self.name]['sem'].acquire()
                sys.settrace(tracer)
                try:
                    self.target()
                except (Deadlock, BadChoice):
                    pass
                except BaseException as e:       # an exception in the helper thread is an observation
                    if isinstance(e, AttributeError) and 'SimpleNamespace' in str(e):
                        observe('seam', str(e))
                    else:
                        observe('helper_exception', '%s: %s' % (type(e).__name__, e))
                finally:
                    sys.settrace(None)
                    S.finish(self.name)
            self.t = real_threading.Thread(target=body, name=self.name, daemon=True)
            self.t.start()
            S.point('main')

        def join(self, timeout=None):
            # the timeout fires when model time reaches it: time passes only while no thread can run
            t_end = None if timeout is None else S.now + timeout
            S.point(me(), blocked=lambda: S.threads[self.name]['done'] or (t_end is not None and S.now >= t_end), deadline=t_end)

        def is_alive(self):
            return not S.threads[self.name]['done']
    fthr = types.SimpleNamespace(Thread=FThread, current_thread=real_threading.current_thread, Lock=real_threading.Lock)
    return fos, fsub, fthr, tracer, pipe


def execute(choices, runner, call, script, status, cap):
    """Run `call()` (which invokes runner.run_program) under the schedule `choices`.
    -> (result tuple, Sched, observations)"""
    S = Sched(choices)
    S.register('main')
    obs = []
    fos, fsub, fthr, tracer, pipe = make_env(S, runner.__file__, script, status, cap, lambda k, v: obs.append((k, v)))
    saved = (runner.os, runner.subprocess, runner.threading)
    runner.os, runner.subprocess, runner.threading = fos, fsub, fthr
    cur = real_threading.current_thread()
    old_name = cur.name
    cur.name = 'main'
    sys.settrace(tracer)
    try:
        rc = call()
        res = ('ok', rc)
    except AttributeError as e:
        if 'SimpleNamespace' in str(e):
            res = ('seam', str(e))      # the runner uses a part of os / subprocess / threading the shim does not model
        else:
            raise
    except Deadlock as e:
        res = ('deadlock', str(e))
    except AssertionError as e:
        res = ('assert', str(e))
    finally:
        sys.settrace(None)
        cur.name = old_name
        runner.os, runner.subprocess, runner.threading = saved
        # let a helper that is still parked run to its end so that no thread leaks
        for n, t in S.threads.items():
            if n != 'main' and not t['done']:
                S.error = S.error or Deadlock('abandoned')
    return res, S, obs


def explore_schedules(run_one, bound, max_schedules=None):
    """Iterative context bounding: run_one(choices) -> (result, Sched).  Yields
    (choices, result) for every schedule with at most `bound` preemptions."""
    stack = [[]]
    n = 0
    while stack:
        prefix = stack.pop()
        result, S = run_one(prefix)
        n += 1
        yield list(S.trace), result, S
        if max_schedules is not None and n >= max_schedules:
            return
        costs, _ = S.preemptions_before()
        for i in range(len(prefix), len(S.points)):
            me, order = S.points[i]
            for alt in range(1, len(order)):
                cost = costs[i] + (1 if order[0] == me else 0)
                if cost <= bound:
                    stack.append(S.trace[:i] + [alt])
