"""Tolerant parser for wayland-debug's (colourless) output lines.

Strict about what the properties mention (type@id+letters, new, name=value,
value:label&label, `-- label.destroyed after N.NNNNs`, New|Closed notices, the
`X:` prefix, the gap separator, list header/count lines) and tolerant about
cosmetics (column widths, arrows).
"""
import ast
import re

_head = re.compile(r'^\s*(?P<time>-?\d+\.\d{4}) (?P<conn>\w*): (?P<sent>→ )?')
_obj = r'(?P<unres>unresolved )?(?P<type>[^\s@(),]+)@(?P<id>\d+)(?P<gen>[a-z]+|\?)'
_target = re.compile(_obj + r'\.(?P<name>\w+)\(')
_objval = re.compile(r'^(?P<new>new )?' + _obj + r'$')
_tail = re.compile(r'^(?: -- (?P<dobj>.+?)\.destroyed(?: after (?P<after>-?\d+\.\d{4})s)?)?(?P<recv> ↲)?$')
_notice = re.compile(r'^(?P<what>New|Closed) (?P<role>client|server|unknown type) connection (?P<conn>\w+)$')
_sep = re.compile(r'^\s*───┤ (?P<gap>-?\d+\.\d{4})s ├───$')
_count = re.compile(r"^\((?P<matched>\d+) matched, (?P<didnt>\d+) didn't(?:, (?P<notchecked>\d+) not checked)?\)$")
_none_of = re.compile(r'^ ╰╴ None of the (?P<n>\d+) messages so far$')
_header = re.compile(r'^Messages that match (?P<matcher>.*?)(?: on connection (?P<conn>\w+))?:$')
_stopped = re.compile(r'^\s*Stopped at (?P<rest>.*)$')
_pass = re.compile(r'^ {6} \|  (?P<text>.*)$')


class ParseError(Exception):
    pass


def _scan_args(s, i):
    """s[i] is the first character after '('.  Returns (list of arg strings, index
    after the matching ')')."""
    args = []
    cur = []
    depth = 0
    pdepth = 0      # parentheses inside a value, as in the enum label `(none)`
    quote = None
    n = len(s)
    while i < n:
        c = s[i]
        if quote:
            cur.append(c)
            if c == '\\' and i + 1 < n:
                cur.append(s[i + 1])
                i += 1
            elif c == quote:
                quote = None
        elif c in '\'"':
            quote = c
            cur.append(c)
        elif c == '[':
            depth += 1
            cur.append(c)
        elif c == ']':
            depth -= 1
            cur.append(c)
        elif c == '(':
            pdepth += 1
            cur.append(c)
        elif c == ')' and pdepth > 0:
            pdepth -= 1
            cur.append(c)
        elif c == ')' and depth <= 0:
            if cur or args:
                args.append(''.join(cur))
            return args, i + 1
        elif c == ',' and depth <= 0 and s[i + 1:i + 2] == ' ':
            args.append(''.join(cur))
            cur = []
            i += 1
        else:
            cur.append(c)
        i += 1
    raise ParseError('unterminated argument list: ' + s)


def parse_obj(text):
    m = re.match('^' + _obj + '$', text)
    if not m:
        raise ParseError('not an object: ' + text)
    return _objrec(m)


def _objrec(m):
    t = m.group('type')
    g = m.group('gen')
    return {'type': None if t == '???' else t, 'id': int(m.group('id')),
            'gen': None if g == '?' else g, 'resolved': not m.group('unres')}


def parse_value(v):
    if re.match(r'^-?\d+$', v):
        return {'kind': 'int', 'value': int(v)}
    m = re.match(r'^(-?\d+):(.+)$', v)
    if m:
        return {'kind': 'int', 'value': int(m.group(1)), 'labels': m.group(2).split('&')}
    m = re.match(r'^null (\S+)$', v)
    if m:
        return {'kind': 'nil', 'type': None if m.group(1) == '??' else m.group(1)}
    m = re.match(r'^fd (-?\d+)$', v)
    if m:
        return {'kind': 'fd', 'value': int(m.group(1))}
    m = _objval.match(v)
    if m:
        r = _objrec(m)
        r['kind'] = 'new' if m.group('new') else 'obj'
        return r
    if v[:1] in ('"', "'"):
        try:
            return {'kind': 'str', 'value': ast.literal_eval(v)}
        except Exception:
            raise ParseError('bad string literal ' + v)
    if v == '[...]':
        return {'kind': 'array', 'values': None}
    if v.startswith('[') and v.endswith(']'):
        inner, _ = _scan_args(v[1:-1] + ')', 0)
        return {'kind': 'array', 'values': [parse_arg(x) for x in inner]}
    if v.startswith('Unknown: '):
        try:
            return {'kind': 'unknown', 'text': ast.literal_eval(v[len('Unknown: '):])}
        except Exception:
            return {'kind': 'unknown', 'text': v}
    if v == '?':
        return {'kind': 'unknown', 'text': None}
    try:
        return {'kind': 'float', 'value': float(v), 'text': v}
    except ValueError:
        raise ParseError('unrecognised argument value ' + repr(v))


def parse_arg(a):
    m = re.match(r'^([A-Za-z_]\w*)=(.*)$', a, re.S)
    if m:
        r = parse_value(m.group(2))
        r['name'] = m.group(1)
    else:
        r = parse_value(a)
        r['name'] = None
    return r


def parse_message_body(s):
    """Parse `[→ ]type@id.name(args)[ -- x.destroyed after Ns][ ↲]`."""
    sent = s.startswith('→ ')
    if sent:
        s = s[2:]
    m = _target.match(s)
    if not m:
        raise ParseError('no target: ' + s)
    obj = _objrec(m)
    args, j = _scan_args(s, m.end())
    t = _tail.match(s[j:])
    if not t:
        raise ParseError('bad tail: ' + s[j:])
    rec = {'sent': sent, 'obj': obj, 'name': m.group('name'), 'args': [parse_arg(a) for a in args],
           'destroyed': None}
    if sent == bool(t.group('recv')):
        raise ParseError('direction markers inconsistent: ' + s)
    if t.group('dobj'):
        d = parse_obj(t.group('dobj'))
        d['after'] = t.group('after')
        rec['destroyed'] = d
    return rec


def classify(line):
    """Returns (class, record)."""
    m = _head.match(line)
    if m:
        try:
            rec = parse_message_body(line[m.end() - (2 if m.group('sent') else 0):])
        except ParseError as e:
            return 'other', {'text': line, 'error': str(e)}
        rec['time'] = m.group('time')
        rec['conn'] = m.group('conn')
        rec['text'] = line
        return 'message', rec
    m = _notice.match(line)
    if m:
        return 'notice', {'what': m.group('what'), 'role': m.group('role').split()[0], 'conn': m.group('conn')}
    m = _sep.match(line)
    if m:
        return 'separator', {'gap': m.group('gap')}
    m = _pass.match(line)
    if m:
        return 'passthrough', {'text': m.group('text')}
    m = _count.match(line)
    if m:
        return 'count', {k: int(v) if v is not None else 0 for k, v in m.groupdict().items()}
    m = _none_of.match(line)
    if m:
        return 'none_of', {'n': int(m.group('n'))}
    if line == ' ╰╴ No messages yet':
        return 'no_messages', {}
    m = _header.match(line)
    if m:
        return 'header', {'matcher': m.group('matcher'), 'conn': m.group('conn')}
    m = _stopped.match(line)
    if m:
        try:
            return 'stopped', parse_message_body(m.group('rest'))
        except ParseError as e:
            return 'stopped', {'text': m.group('rest'), 'error': str(e)}
    return 'other', {'text': line}


def label(o):
    """type@id+letters as displayed."""
    return '%s@%d%s' % (o['type'] if o['type'] else '???', o['id'], o['gen'] if o['gen'] is not None else '?')
