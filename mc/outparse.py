"""Tolerant parser for wayland-debug's (colourless) output lines.

Strict about what the properties mention (type@id+letters, new, name=value,
value:label&label, `-- label.destroyed after N.NNNNs`, New|Closed notices, the
`X:` prefix, the gap separator, list header/count lines) and tolerant about
cosmetics (column widths, arrows).
"""
import ast
import re

_head = re.compile(r'^\s*(?P<time>-?\d+\.\d+) (?P<conn>\w*): (?P<mark>[^\w\s?@]+ )?')
SENT_MARKS = ('→', '->', '=>', '»', '>')
RECV_MARKS = ('←', '<-', '<=', '«', '<', '↲')
_obj = r'(?P<unres>unresolved )?(?P<type>[^\s@(),]+)@(?P<id>\d+)(?P<gen>[a-z]+|\?)'
_target = re.compile(_obj + r'\.(?P<name>\w+)\(')
_objval = re.compile(r'^(?P<new>new )?' + _obj + r'$')
_tail = re.compile(r'^(?: -- (?P<dobj>.+?)\.destroyed(?: after (?P<after>-?\d+\.\d+)s)?)?(?P<recv> [^\w\s]+)?$')
# `New|Closed <role> connection <name>`; what may follow the name (a summary of the connection) is presentation
_notice = re.compile(r'^(?P<what>New|Closed) (?P<role>client|server|unknown type) connection (?P<conn>\w+)(?=$|[^\w]).*$')


def same_notice(line, expected):
    """Is `line` the notice `expected` (given as 'New client connection A'), whatever follows the name?"""
    a, b = _notice.match(line), _notice.match(expected)
    return bool(a and b and a.group('what', 'role', 'conn') == b.group('what', 'role', 'conn'))
# the gap separator: a rule of symbols, then the gap in seconds; what follows the figure (` later`, `(2m 05s)`, the closing
# rule) is presentation.  A line that starts with the gutter of passed-through text is never a separator.
_sep = re.compile(r'^\s*[^\w\s|\u2502]+\s*(?P<gap>-?\d+\.\d+)s\b.*$')
# the three counts of `list`, wherever and however they are decorated
_count = re.compile(r"(?P<matched>\d+) matched\b.*?(?P<didnt>\d+) didn't(?: match)?(?:.*?(?P<notchecked>\d+) not checked)?")
_none_of = re.compile(r'\bNone of the (?P<n>\d+) messages?\b')
_header = re.compile(r'^(?:Messages|Last (?:\d+ )?messages?) that match(?:es)? (?P<matcher>.*?)(?: on connection (?P<conn>\w+))?:$')
_stopped = re.compile(r'^\s*Stopped at (?P<rest>.*)$')
_pass = re.compile(r'^\s*[|│┃¦] {1,3}(?P<text>.*)$')


class ParseError(Exception):
    pass


def _scan_args(s, i):
    """s[i] is the first character after '('.  Returns (list of arg strings, index
    after the matching ')')."""
    args = []
    cur = []
    depth = 0
    pdepth = 0      # parentheses inside a value, as in the enum label `(none)`
    quote = None
    n = len(s)
    while i < n:
        c = s[i]
        if quote:
            cur.append(c)
            if c == '\\' and i + 1 < n:
                cur.append(s[i + 1])
                i += 1
            elif c == quote:
                quote = None
        elif c in '\'"':
            quote = c
            cur.append(c)
        elif c == '[':
            depth += 1
            cur.append(c)
        elif c == ']':
            depth -= 1
            cur.append(c)
        elif c == '(':
            pdepth += 1
            cur.append(c)
        elif c == ')' and pdepth > 0:
            pdepth -= 1
            cur.append(c)
        elif c == ')' and depth <= 0:
            if cur or args:
                args.append(''.join(cur))
            return args, i + 1
        elif c == ',' and depth <= 0 and s[i + 1:i + 2] == ' ':
            args.append(''.join(cur))
            cur = []
            i += 1
        else:
            cur.append(c)
        i += 1
    raise ParseError('unterminated argument list: ' + s)


def parse_obj(text):
    m = re.match('^' + _obj + '$', text)
    if not m:
        raise ParseError('not an object: ' + text)
    return _objrec(m)


def _objrec(m):
    t = m.group('type')
    g = m.group('gen')
    return {'type': None if t == '???' else t, 'id': int(m.group('id')),
            'gen': None if g == '?' else g, 'resolved': not m.group('unres')}


def parse_value(v):
    if re.match(r'^-?\d+$', v):
        return {'kind': 'int', 'value': int(v)}
    m = re.match(r'^(-?\d+):(.+)$', v)
    if m:
        return {'kind': 'int', 'value': int(m.group(1)), 'labels': m.group(2).split('&')}
    m = re.match(r'^null (\S+)$', v)
    if m:
        return {'kind': 'nil', 'type': None if m.group(1) == '??' else m.group(1)}
    m = re.match(r'^fd (-?\d+)$', v)
    if m:
        return {'kind': 'fd', 'value': int(m.group(1))}
    m = _objval.match(v)
    if m:
        r = _objrec(m)
        r['kind'] = 'new' if m.group('new') else 'obj'
        return r
    if v[:1] in ('"', "'"):
        try:
            return {'kind': 'str', 'value': ast.literal_eval(v)}
        except Exception:
            raise ParseError('bad string literal ' + v)
    if v == '[...]':
        return {'kind': 'array', 'values': None}
    if v.startswith('[') and v.endswith(']'):
        inner, _ = _scan_args(v[1:-1] + ')', 0)
        try:
            return {'kind': 'array', 'values': [parse_arg(x) for x in inner]}
        except ParseError:
            return {'kind': 'array', 'values': None, 'text': v}      # e.g. a size instead of the elements
    if v.startswith('Unknown: '):
        try:
            return {'kind': 'unknown', 'text': ast.literal_eval(v[len('Unknown: '):])}
        except Exception:
            return {'kind': 'unknown', 'text': v}
    if v == '?':
        return {'kind': 'unknown', 'text': None}
    try:
        return {'kind': 'float', 'value': float(v), 'text': v}
    except ValueError:
        raise ParseError('unrecognised argument value ' + repr(v))


def parse_arg(a):
    m = re.match(r'^([A-Za-z_]\w*)=(.*)$', a, re.S)
    if m:
        r = parse_value(m.group(2))
        r['name'] = m.group(1)
    else:
        r = parse_value(a)
        r['name'] = None
    return r


def parse_message_body(s):
    """Parse `[→ ]type@id.name(args)[ -- x.destroyed after Ns][ ↲]`."""
    mark = None
    mm = re.match(r'^([^\w\s?@]+) ', s)
    if mm:
        mark = mm.group(1)
        s = s[mm.end():]
    m = _target.match(s)
    if not m:
        raise ParseError('no target: ' + s)
    obj = _objrec(m)
    args, j = _scan_args(s, m.end())
    t = _tail.match(s[j:])
    if not t:
        raise ParseError('bad tail: ' + s[j:])
    # direction: a glyph before the object or after the line; which glyphs are used is presentation
    tailmark = t.group('recv').strip() if t.group('recv') else None
    if mark in SENT_MARKS and tailmark is None:
        sent = True
    elif (mark in RECV_MARKS and tailmark is None) or (mark is None and tailmark is not None):
        sent = False
    elif mark is None and tailmark is None:
        sent = None
    else:
        raise ParseError('direction markers inconsistent: ' + s)
    rec = {'sent': sent, 'obj': obj, 'name': m.group('name'), 'args': [parse_arg(a) for a in args],
           'destroyed': None}
    if t.group('dobj'):
        d = parse_obj(t.group('dobj'))
        d['after'] = t.group('after')
        rec['destroyed'] = d
    return rec


def classify(line):
    """Returns (class, record)."""
    m = _head.match(line)
    if m:
        try:
            rec = parse_message_body(line[m.end() - (len(m.group('mark')) if m.group('mark') else 0):])
        except ParseError as e:
            return 'other', {'text': line, 'error': str(e)}
        rec['time'] = m.group('time')
        rec['conn'] = m.group('conn')
        rec['text'] = line
        return 'message', rec
    m = _notice.match(line)
    if m:
        return 'notice', {'what': m.group('what'), 'role': m.group('role').split()[0], 'conn': m.group('conn')}
    m = _sep.match(line)
    if m:
        return 'separator', {'gap': m.group('gap')}
    m = _pass.match(line)
    if m:
        return 'passthrough', {'text': m.group('text')}
    m = _count.search(line)
    if m and not _head.match(line):
        return 'count', {k: int(v) if v is not None else 0 for k, v in m.groupdict().items()}
    m = _none_of.search(line)
    if m:
        return 'none_of', {'n': int(m.group('n'))}
    if 'No messages yet' in line:
        return 'no_messages', {}
    m = _header.match(line)
    if m:
        return 'header', {'matcher': m.group('matcher'), 'conn': m.group('conn')}
    m = _stopped.match(line)
    if m:
        try:
            return 'stopped', parse_message_body(m.group('rest'))
        except ParseError as e:
            return 'stopped', {'text': m.group('rest'), 'error': str(e)}
    return 'other', {'text': line}


def label(o):
    """type@id+letters as displayed."""
    return '%s@%d%s' % (o['type'] if o['type'] else '???', o['id'], o['gen'] if o['gen'] is not None else '?')


_listing = re.compile(r'^\s*(?P<mark>=> )?(?P<name>\w+) \((?P<what>[^)]*)\): (?P<state>open|closed), (?P<n>\d+) messages?\b')


def connection_line(line):
    """One line of the `connection` listing -> dict(name, role, closed, selected, messages) or None.
    Tolerant of additions after the message count and of singular/plural."""
    m = _listing.match(line)
    if not m:
        return None
    what = m.group('what')
    role = 'unknown' if 'unknown' in what else ('server' if what.startswith('server') else ('client' if what.startswith('client') else what))
    return {'name': m.group('name'), 'role': role, 'closed': m.group('state') == 'closed' or ', closed' in what,
            'selected': bool(m.group('mark')), 'messages': int(m.group('n')), 'state': m.group('state')}


def queried_matcher(lines):
    """The matcher printed by a no-argument `filter` / `breakpoint` query: the text after the first `: `."""
    for l in lines:
        if ': ' in l:
            return l.split(': ', 1)[1].strip()
    return None
