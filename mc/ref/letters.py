"""Reference for the a, b, ..., z, aa, ab, ... sequence: by construction, the
sequence of all words over the alphabet ordered by (length, lexicographic)."""
import itertools
import string


def sequence(caps=False):
    alpha = string.ascii_uppercase if caps else string.ascii_lowercase
    n = 1
    while True:
        for t in itertools.product(alpha, repeat=n):
            yield ''.join(t)
        n += 1


def first(n, caps=False):
    return list(itertools.islice(sequence(caps), n))


_cache = []


def word(index, caps=False):
    """index-th word (0-based).  Built from the generator for small indexes, from
    counting blocks for large ones (block k holds 26**k words of length k)."""
    if index < 20000:
        if not _cache:
            _cache.extend(first(20000))
        w = _cache[index]
        return w.upper() if caps else w
    k = 1
    rest = index
    while rest >= 26 ** k:
        rest -= 26 ** k
        k += 1
    # rest-th word of length k in lexicographic order = rest written in base 26 with k digits
    digits = []
    for _ in range(k):
        digits.append(rest % 26)
        rest //= 26
    alpha = string.ascii_uppercase if caps else string.ascii_lowercase
    return ''.join(alpha[d] for d in reversed(digits))
