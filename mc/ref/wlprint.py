"""Environment model: libwayland's wl_closure_print() in its output dialects.

A structured message is
  {'t_us': int, 'sent': bool, 'iface': str, 'id': int, 'name': str,
   'args': [arg...], 'queue': str|None, 'conn': str|None}
with arg one of
  ['int', v] ['uint', v] ['fixed', raw] ['str', text|None] ['obj', iface, id] | ['obj', None, 0] (nil)
  ['new', iface|None, id] ['fd', n] ['array', nbytes]

Dialects (feature tuples taken from libwayland's sources; `mid` is the library
installed in this image, whose format strings setup compares, `cur` is 1.23.1 +
the repository's patches in resources/libwayland-patches):
  old : "[%10.3f] %s%s@%u.%s("   fixed "%f"       "array"       no tags
  oldc: the same under a locale whose decimal mark is ','
  mid : "[%7u.%03u] %s%s%s@%u.%s(" fixed "%d.%08d" "array[%zu]"  no tags
  cur : "[%7u.%03u] {queue} <conn> %s%s%s#%u.%s("  fixed "%d.%08d" "array[%zu]"
"""

DIALECTS = {
    'old': dict(time='f', sep='@', fixed='f', array='plain', tags=False, mark='.'),
    'oldc': dict(time='f', sep='@', fixed='f', array='plain', tags=False, mark=','),
    'mid': dict(time='u', sep='@', fixed='d', array='sized', tags=False, mark='.'),
    'cur': dict(time='u', sep='#', fixed='d', array='sized', tags=True, mark='.'),
}


def c_div(a, b):
    """C integer division (truncation toward zero)."""
    q = abs(a) // abs(b)
    return q if (a >= 0) == (b >= 0) else -q


def fixed_text(raw, style, mark='.'):
    """Render a 24.8 fixed value (raw int32) as wl_closure_print does."""
    if style == 'f':
        # "%f" of wl_fixed_to_double(raw) = raw / 256.0 (exact in binary)
        s = '%f' % (raw / 256.0)
        return s.replace('.', mark)
    if raw >= 0:
        return '%d.%08d' % (c_div(raw, 256), 390625 * (raw & 255))
    # "-%d.%08d", f / -256, -390625 * (f % 256)   (C remainder: sign of the dividend); confirmed against the
    # installed libwayland by mc/bind_libwayland.py
    return '-%d.%08d' % (c_div(raw, -256), -390625 * (raw - 256 * c_div(raw, 256)))


def fixed_value(raw):
    return raw / 256.0


def time_text(t_us, style, mark='.'):
    if style == 'u':
        return '[%7u.%03u]' % (t_us // 1000, t_us % 1000)
    # old libwayland: time = tv_sec*1000000 + tv_nsec/1000 ; "[%10.3f]" of time/1000.0
    return ('[%10.3f]' % (t_us / 1000.0)).replace('.', mark)


def arg_text(a, d):
    k = a[0]
    sep = d['sep']
    if k == 'int':
        return '%d' % a[1]
    if k == 'uint':
        return '%d' % a[1]
    if k == 'fixed':
        return fixed_text(a[1], d['fixed'], d['mark'])
    if k == 'str':
        return 'nil' if a[1] is None else '"%s"' % a[1]
    if k == 'obj':
        if a[1] is None and not a[2]:
            return 'nil'
        return '%s%s%d' % (a[1], sep, a[2])
    if k == 'nil':
        return 'nil'
    if k == 'new':
        return 'new id %s%s%d' % (a[1] if a[1] is not None else '[unknown]', sep, a[2])
    if k == 'fd':
        return 'fd %d' % a[1]
    if k == 'array':
        return 'array' if d['array'] == 'plain' else 'array[%d]' % a[1]
    raise ValueError(a)


def render(m, dialect):
    d = DIALECTS[dialect] if isinstance(dialect, str) else dialect
    s = time_text(m['t_us'], d['time'], d['mark']) + ' '
    if d['tags']:
        if m.get('queue') is not None:
            s += '{%s} ' % m['queue']
        if m.get('conn') is not None:
            s += '<%s> ' % m['conn']
    s += ' -> ' if m['sent'] else ''
    s += '%s%s%d.%s(' % (m['iface'], d['sep'], m['id'], m['name'])
    s += ', '.join(arg_text(a, d) for a in m['args'])
    return s + ')'


# ---------------------------------------------------------------------------
# The reference's own inverse, used only to bind the model to the real logs in
# resources/libwayland_debug_logs (independent of the code under test).

def unprint_old(line):
    """Parse a line of the `old`/`oldc` dialect back into a structured message, or
    None if it is not a message.  Only needs to handle what real logs contain."""
    import re
    m = re.match(r'^\[\s*(\d+)([.,])(\d{3})\] ( -> )?(\w+)@(\d+)\.(\w+)\((.*)\)$', line)
    if not m:
        return None
    mark = m.group(2)
    t_us = int(m.group(1)) * 1000 + int(m.group(3))
    body = m.group(8)
    args = []
    i = 0
    n = len(body)
    while i < n:
        if body[i] == '"':
            j = body.index('"', i + 1)
            while j + 1 < n and body[j + 1:j + 3] != ', ':
                j = body.index('"', j + 1)
            args.append(['str', body[i + 1:j]])
            i = j + 1
        else:
            j = body.find(', ', i)
            # a comma-mark float "1,500000" contains no ", "
            if j < 0:
                j = n
            tok = body[i:j]
            fm = re.match(r'^-?\d+[.,]\d{6}$', tok)
            if re.match(r'^-?\d+$', tok):
                args.append(['int', int(tok)])
            elif fm:
                args.append(['fixed', round(float(tok.replace(',', '.')) * 256)])
            elif tok == 'nil':
                args.append(['nil'])
            elif tok == 'array':
                args.append(['array', 0])
            elif tok.startswith('fd '):
                args.append(['fd', int(tok[3:])])
            elif tok.startswith('new id '):
                t, _, oid = tok[7:].partition('@')
                args.append(['new', None if t == '[unknown]' else t, int(oid)])
            else:
                t, _, oid = tok.partition('@')
                args.append(['obj', t, int(oid)])
            i = j
        if body[i:i + 2] == ', ':
            i += 2
    return {'t_us': t_us, 'sent': bool(m.group(4)), 'iface': m.group(5), 'id': int(m.group(6)),
            'name': m.group(7), 'args': args, 'queue': None, 'conn': None}, mark
