"""Independent reader of Wayland protocol XML (reference for C07, and the source of
argument names / nil types / enum labels for the C05 universe).

Written from the protocol DTD, not from the code under test.  Per interface it keeps
*all* descriptions that share the highest version (the order in which the tool meets
files is os.listdir order, so the reference accepts any of the tied candidates).
"""
import collections
import os
import xml.etree.ElementTree as ET


def literal(v):
    """Enum value literal: decimal, hex, or `a << b`."""
    v = v.strip()
    if '<<' in v:
        a, b = v.split('<<')
        return int(a.strip(), 0) << int(b.strip(), 0)
    return int(v, 0)


class Desc:
    """One description of an interface."""

    def __init__(self, name, version, messages, enums, path):
        self.name = name
        self.version = version
        self.messages = messages      # OrderedDict name -> [(argname, type, interface, enum)]
        self.enums = enums            # name -> (bitfield, [(entry, value)])
        self.path = path

    def content(self):
        return repr((sorted(self.messages.items()), sorted(self.enums.items())))


def read_file(path):
    out = []
    root = ET.parse(path).getroot()
    for i in root.findall('interface'):
        msgs = collections.OrderedDict()
        for m in i:
            if m.tag in ('request', 'event'):
                # a later message with the same name replaces the earlier one (dictionary semantics)
                msgs[m.get('name')] = [(a.get('name'), a.get('type'), a.get('interface'), a.get('enum'))
                                       for a in m.findall('arg')]
        enums = {}
        for e in i.findall('enum'):
            enums[e.get('name')] = (e.get('bitfield', 'false') == 'true',
                                    [(x.get('name'), literal(x.get('value'))) for x in e.findall('entry')])
        out.append(Desc(i.get('name'), int(i.get('version')), msgs, enums, path))
    return out


def discover(root):
    files = []
    for d, _, fs in os.walk(root):
        for f in fs:
            if f.endswith('.xml'):
                files.append(os.path.join(d, f))
    return sorted(files)


def load_tree(roots):
    cands = collections.defaultdict(list)
    for r in roots:
        if os.path.isdir(r):
            for f in discover(r):
                for d in read_file(f):
                    cands[d.name].append(d)
    top = {}
    for n, l in cands.items():
        mx = max(d.version for d in l)
        top[n] = [d for d in l if d.version == mx]
    return top


# The enum tags load_all() applies by hand (reference data, see DESIGN.md section C07)
HAND = {
    ('wl_data_offer', 'set_actions', 'dnd_actions'): 'wl_data_device_manager.dnd_action',
    ('wl_data_offer', 'set_actions', 'preferred_action'): 'wl_data_device_manager.dnd_action',
    ('wl_data_offer', 'source_actions', 'source_actions'): 'wl_data_device_manager.dnd_action',
    ('wl_data_offer', 'action', 'dnd_action'): 'wl_data_device_manager.dnd_action',
    ('wl_data_source', 'set_actions', 'dnd_actions'): 'wl_data_device_manager.dnd_action',
    ('wl_data_source', 'action', 'dnd_action'): 'wl_data_device_manager.dnd_action',
    ('wl_pointer', 'button', 'button'): 'fake_enums.button',
    ('zxdg_toplevel_v6', 'configure', 'states'): 'state',
    ('zxdg_toplevel_v6', 'resize', 'edges'): 'resize_edge',
    ('zxdg_positioner_v6', 'set_constraint_adjustment', 'constraint_adjustment'): 'constraint_adjustment',
    ('xdg_toplevel', 'configure', 'states'): 'state',
    ('xdg_toplevel', 'resize', 'edges'): 'resize_edge',
    ('xdg_positioner', 'set_constraint_adjustment', 'constraint_adjustment'): 'constraint_adjustment',
    ('zwlr_foreign_toplevel_handle_v1', 'state', 'state'): 'state',
    ('org_kde_kwin_server_decoration_manager', 'default_mode', 'mode'): 'mode',
    ('org_kde_kwin_server_decoration', 'request_mode', 'mode'): 'mode',
    ('org_kde_kwin_server_decoration', 'mode', 'mode'): 'mode',
}
FAKE = {'fake_enums': {'button': (False, [('left', 0x110), ('right', 0x111), ('middle', 0x112)])}}


def enum_candidates(top, iface, path):
    """All enums the path may denote (one per tied candidate of the owning interface)."""
    parts = [iface] + path.split('.')
    ei, en = parts[-2], parts[-1]
    if ei in FAKE:
        return [FAKE[ei].get(en)]
    if ei not in top:
        return [None]
    return [d.enums.get(en) for d in top[ei]]


def labels(enum, v):
    if enum is None:
        return []
    bf, entries = enum
    r = [n for n, x in entries if ((x & v) if bf else (x == v))]
    return r or (['(none)'] if bf else ['INVALID ENUM VALUE'])


_shipped = None


def shipped(repo):
    global _shipped
    if _shipped is None:
        _shipped = load_tree(['/usr/share/wayland', '/usr/share/wayland-protocols',
                              os.path.join(repo, 'resources', 'protocols')])
    return _shipped
