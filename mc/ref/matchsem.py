"""Denotational reference for the matcher DSL (C05; reused by C06, C11, C12, C17).

There is no second parser here: every expression is *built together with* its
denotation - a three-valued Python predicate (True / False / None = documented
behaviour does not decide) over reference views of messages.  The universe of
messages is generated from structured messages; the reference view of each message
(labels, argument names, nil types, enum labels) comes from the reference object
table and the independent XML reader, not from the code under test.
"""
import fnmatch

from . import objtable as ot
from . import protoxml, wlprint, letters

T0 = 7000000000

# ---------------------------------------------------------------------------
# Universe


def _u(conn, sent, iface, oid, name, args):
    return {'sent': sent, 'iface': iface, 'id': oid, 'name': name, 'args': args, 'queue': None, 'conn': conn}


S = 0xff000000

UNIVERSE = [
    _u('1', True, 'wl_display', 1, 'get_registry', [['new', 'wl_registry', 2]]),
    _u('1', False, 'wl_registry', 2, 'global', [['int', 1], ['str', 'wl_compositor'], ['int', 4]]),
    _u('1', True, 'wl_registry', 2, 'bind', [['int', 1], ['str', 'wl_compositor'], ['int', 4], ['new', None, 3]]),
    _u('1', True, 'wl_compositor', 3, 'create_surface', [['new', 'wl_surface', 4]]),
    _u('1', True, 'wl_surface', 4, 'attach', [['nil'], ['int', 0], ['int', 0]]),
    _u('1', True, 'wl_surface', 4, 'commit', []),
    _u('1', True, 'wl_surface', 4, 'destroy', []),
    _u('1', False, 'wl_display', 1, 'delete_id', [['int', 4]]),
    _u('1', True, 'wl_compositor', 3, 'create_surface', [['new', 'wl_surface', 4]]),
    _u('1', True, 'wl_surface', 4, 'set_buffer_scale', [['int', 2]]),
    _u('1', True, 'wl_surface', 4, 'commit', []),
    _u('1', True, 'wl_registry', 2, 'bind', [['int', 2], ['str', 'wl_seat'], ['int', 5], ['new', None, 5]]),
    _u('1', False, 'wl_seat', 5, 'capabilities', [['int', 3]]),
    _u('1', True, 'wl_seat', 5, 'get_pointer', [['new', 'wl_pointer', 6]]),
    _u('1', False, 'wl_pointer', 6, 'enter', [['int', 7], ['obj', 'wl_surface', 4], ['fixed', 384], ['fixed', 0]]),
    _u('1', False, 'wl_pointer', 6, 'button', [['int', 8], ['int', 100], ['int', 272], ['int', 1]]),
    _u('1', False, 'wl_pointer', 6, 'button', [['int', 9], ['int', 101], ['int', 272], ['int', 0]]),
    _u('1', False, 'wl_pointer', 6, 'motion', [['int', 102], ['fixed', 0], ['fixed', 512]]),
    _u('1', True, 'wl_pointer', 6, 'set_cursor', [['int', 7], ['nil'], ['int', 0], ['int', 0]]),
    _u('1', True, 'wl_registry', 2, 'bind', [['int', 3], ['str', 'wl_shm'], ['int', 1], ['new', None, 7]]),
    _u('1', True, 'wl_shm', 7, 'create_pool', [['new', 'wl_shm_pool', 8], ['fd', 9], ['int', 4096]]),
    _u('1', True, 'wl_shm_pool', 8, 'create_buffer', [['new', 'wl_buffer', 9], ['int', 0], ['int', 2], ['int', 3], ['int', 8], ['int', 1]]),
    _u('1', True, 'wl_surface', 4, 'attach', [['obj', 'wl_buffer', 9], ['int', 0], ['int', 0]]),
    _u('1', True, 'wl_surface', 4, 'damage', [['int', 0], ['int', 0], ['int', 2], ['int', 3]]),
    _u('1', True, 'wl_seat', 5, 'get_keyboard', [['new', 'wl_keyboard', 10]]),
    _u('1', False, 'wl_keyboard', 10, 'keymap', [['int', 1], ['fd', 12], ['int', 100]]),
    _u('1', False, 'wl_keyboard', 10, 'enter', [['int', 11], ['obj', 'wl_surface', 4], ['array', 8]]),
    _u('1', True, 'wl_registry', 2, 'bind', [['int', 4], ['str', 'xdg_wm_base'], ['int', 2], ['new', None, 11]]),
    _u('1', True, 'xdg_wm_base', 11, 'get_xdg_surface', [['new', 'xdg_surface', 12], ['obj', 'wl_surface', 4]]),
    _u('1', True, 'xdg_surface', 12, 'get_toplevel', [['new', 'xdg_toplevel', 13]]),
    _u('1', True, 'xdg_toplevel', 13, 'set_title', [['str', 'two words']]),
    _u('1', False, 'xdg_toplevel', 13, 'configure', [['int', 0], ['int', 0], ['array', 4]]),
    _u('1', False, 'xdg_surface', 12, 'configure', [['int', 13]]),
    _u('1', True, 'xdg_surface', 12, 'ack_configure', [['int', 13]]),
    _u('1', True, 'wl_registry', 2, 'bind', [['int', 5], ['str', 'wl_data_device_manager'], ['int', 3], ['new', None, 14]]),
    _u('1', True, 'wl_data_device_manager', 14, 'get_data_device', [['new', 'wl_data_device', 15], ['obj', 'wl_seat', 5]]),
    _u('1', False, 'wl_data_device', 15, 'data_offer', [['new', 'wl_data_offer', S]]),
    _u('1', False, 'wl_data_offer', S, 'offer', [['str', 'text/plain']]),
    _u('1', False, 'wl_data_device', 15, 'selection', [['obj', 'wl_data_offer', S]]),
    _u('1', False, 'wl_data_device', 15, 'data_offer', [['new', 'wl_data_offer', S]]),
    _u('1', False, 'wl_data_device', 15, 'selection', [['nil']]),
    _u('1', True, 'wl_surface', 4, 'frame', [['new', 'wl_callback', 16]]),
    _u('1', True, 'wl_surface', 4, 'commit', []),
    _u('1', False, 'wl_callback', 16, 'done', [['int', 1234]]),
    _u('1', False, 'wl_display', 1, 'delete_id', [['int', 16]]),
    _u('2', True, 'wl_display', 1, 'get_registry', [['new', 'wl_registry', 2]]),
    _u('2', True, 'wl_registry', 2, 'bind', [['int', 1], ['str', 'wl_compositor'], ['int', 4], ['new', None, 3]]),
    _u('2', True, 'wl_compositor', 3, 'create_surface', [['new', 'wl_surface', 4]]),
    _u('2', True, 'wl_surface', 4, 'commit', []),
    _u('2', True, 'wl_surface', 4, 'set_buffer_scale', [['int', 0]]),
    _u('2', True, 'wl_surface', 4, 'damage', [['int', 0], ['int', 0], ['int', 272], ['int', 1]]),
    _u('2', True, 'wl_surface', 4, 'destroy', []),
    _u('2', False, 'wl_display', 1, 'delete_id', [['int', 4]]),
    _u('1', True, 'wl_surface', 4, 'set_buffer_scale', [['int', 1]]),
    _u('2', True, 'wl_compositor', 3, 'create_surface', [['new', 'wl_surface', 4]]),
    # negative values (appended: other checks address the messages above by position)
    _u('2', True, 'wl_surface', 4, 'damage', [['int', -5], ['int', -10], ['int', 2], ['int', 3]]),
    _u('1', False, 'wl_pointer', 6, 'motion', [['int', 103], ['fixed', -1280], ['fixed', 0]]),
    # strings that differ only in the blanks inside them
    _u('1', True, 'xdg_toplevel', 13, 'set_title', [['str', 'a  b']]),
    _u('1', True, 'xdg_toplevel', 13, 'set_title', [['str', 'a b']]),
    # a typed nil, then a nil whose interface no description gives (an interface the tool does not know)
    _u('2', True, 'wl_surface', 4, 'attach', [['nil'], ['int', 0], ['int', 0]]),
    _u('2', True, 'wl_registry', 2, 'bind', [['int', 9], ['str', 'zz_u'], ['int', 1], ['new', None, 7]]),
    _u('2', True, 'zz_u', 7, 'poke', [['nil'], ['int', 5]]),
    # one message creating two objects
    _u('2', True, 'zz_u', 7, 'create_pair', [['new', 'zz_l', 20], ['new', 'zz_r', 21]]),
]


class RefMsg:
    """Reference view of one message."""
    __slots__ = ('conn', 'obj', 'name', 'args', 'news', 'destroyed', 'index', 't_us', 'line')

    @property
    def orphan(self):
        # a message on an object whose creation was never seen: the tool cannot tell which connection the object is on
        # (it matches the connection name `unknown`), so connection-qualified patterns are not decided for it
        return self.obj[2] is None

    def __repr__(self):
        return '<%s %s@%d%s.%s>' % (self.conn, self.obj[0], self.obj[1], letters.word(self.obj[2]), self.name)


def build_universe(repo, msgs=None, dialect='cur', equal_times=False):
    """-> (log lines, [RefMsg])"""
    top = protoxml.shipped(repo)
    msgs = UNIVERSE if msgs is None else msgs
    refs = {}
    names = {}
    lines, views = [], []
    for n, m in enumerate(msgs):
        m = dict(m, t_us=T0 if equal_times else T0 + n * 100)
        ref = refs.setdefault(m['conn'], ot.RefConn())
        if m['conn'] not in names:
            names[m['conn']] = letters.word(len(names), caps=True)

        def trip(oid, declared=None):
            o = ref.latest(oid)
            if o is None:
                return (declared, oid, None)       # an id the history never created: stays unresolved
            return (o.type, oid, o.index)
        v = RefMsg()
        v.conn = names[m['conn']]
        v.index = n
        v.t_us = m['t_us']
        v.name = m['name']
        v.obj = trip(m['id'], m['iface'])
        v.news = []
        v.destroyed = None
        decl = None
        if (m['iface'], m['name']) != ('wl_registry', 'bind') and m['iface'] in top:
            decl = top[m['iface']][0].messages.get(m['name'])
        if m['iface'] == 'wl_display' and m['name'] == 'delete_id' and m['id'] == 1:
            v.destroyed = trip(m['args'][0][1])
            ref.destroy(m['args'][0][1], m['t_us'])
        args = []
        for i, a in enumerate(m['args']):
            d = decl[i] if decl else (None, None, None, None)
            r = {'name': d[0], 'kind': None}
            k = a[0]
            if k in ('int', 'uint'):
                r['kind'] = 'int'
                r['value'] = a[1]
                en = protoxml.HAND.get((m['iface'], m['name'], d[0]), d[3]) if decl else None
                if en:
                    r['labels'] = protoxml.labels(protoxml.enum_candidates(top, m['iface'], en)[0], a[1])
            elif k == 'fixed':
                r['kind'] = 'float'
                r['value'] = a[1] / 256.0
            elif k == 'str':
                r['kind'] = 'str'
                r['value'] = a[1]
            elif k == 'fd':
                r['kind'] = 'fd'
                r['value'] = a[1]
            elif k == 'array':
                r['kind'] = 'array'
            elif k == 'nil':
                r['kind'] = 'nil'
                r['type'] = d[2]
            elif k == 'obj':
                r['kind'] = 'obj'
                r['obj'] = trip(a[2])
            elif k == 'new':
                t = a[1]
                if (m['iface'], m['name']) == ('wl_registry', 'bind'):
                    t = m['args'][1][1]
                ref.create(a[2], t, m['t_us'])
                r['kind'] = 'new'
                r['obj'] = trip(a[2])
                v.news.append(r['obj'])
            args.append(r)
        v.args = args
        v.line = wlprint.render(m, dialect)
        lines.append(v.line)
        views.append(v)
    return lines, views


# ---------------------------------------------------------------------------
# Three-valued logic

def and3(*xs):
    if any(x is False for x in xs):
        return False
    if any(x is None for x in xs):
        return None
    return True


def or3(*xs):
    if any(x is True for x in xs):
        return True
    if any(x is None for x in xs):
        return None
    return False


def not3(x):
    return None if x is None else (not x)


def any3(it):
    return or3(*list(it))


def all3(it):
    return and3(*list(it))


ALL = lambda x: True   # noqa: E731


def wild(p):
    return lambda s: fnmatch.fnmatchcase(s, p)


# ---------------------------------------------------------------------------
# Atoms: (text, denotation).  Denotations of object atoms take (type, id, gen);
# of name atoms a string; of connection atoms a connection name; argument items a
# reference argument dict.

def o_type(p):
    f = wild(p)
    return lambda o: f(o[0])


CONN_ATOMS = [
    ('', ALL), ('A:', lambda c: c == 'A'), ('B:', lambda c: c == 'B'), ('*:', ALL),
    ('[A, B]:', lambda c: c in 'AB'), ('[* ! A]:', lambda c: c != 'A'), ('[A ! B]:', lambda c: c == 'A'),
]

OBJ_ATOMS = [
    ('', ALL),
    ('wl_surface', o_type('wl_surface')),
    ('4', lambda o: o[1] == 4),
    ('4a', lambda o: o[1:] == (4, 0)),
    ('4b', lambda o: o[1:] == (4, 1)),
    ('wl_*', o_type('wl_*')),
    ('*', ALL),
    ('@4', lambda o: o[1] == 4),
    ('wl_surface@', o_type('wl_surface')),
    ('[wl_surface, 3]', lambda o: o[0] == 'wl_surface' or o[1] == 3),
    ('[wl_* ! wl_surface]', lambda o: o[0].startswith('wl_') and o[0] != 'wl_surface'),
    ('[4 ! 4b]', lambda o: o[1] == 4 and o[2] != 1),
    ('wl_*face', o_type('wl_*face')),
    ('*surface', o_type('*surface')),
    ('x*', o_type('x*')),
    ('#4a', lambda o: o[1:] == (4, 0)),
    ('4278190080b', lambda o: o[1:] == (S, 1)),
    ('xdg_*', o_type('xdg_*')),
    # wildcards that do not end in `*` (the whole word must be covered), nested lists with an inner exclusion
    ('wl_*fac', o_type('wl_*fac')),
    ('*_surf', o_type('*_surf')),
    ('wl_s*e', o_type('wl_s*e')),
    ('[6, [wl_* ! wl_pointer]]', lambda o: o[1] == 6 or (o[0].startswith('wl_') and o[0] != 'wl_pointer')),
    ('[[wl_surface ! 4b], 4b]', lambda o: o[0] == 'wl_surface' or o[1:] == (4, 1)),
    ('wl_display', o_type('wl_display')),
    ('1a', lambda o: o[1:] == (1, 0)),
    # the text before and after the `*` would have to overlap: `wl_surface` is not `wl_` + anything + `_surface`
    ('wl_*_surface', o_type('wl_*_surface')),
    ('zz_r', o_type('zz_r')),
]
# which object atoms are "type-like" (a bare type against a typed nil is not decided by the documentation)
TYPE_LIKE = {'wl_surface', 'wl_*', '*', 'wl_surface@', '[wl_surface, 3]', '[wl_* ! wl_surface]', 'wl_*face', '*surface',
             'x*', 'xdg_*', '', 'wl_*fac', '*_surf', 'wl_s*e', '[6, [wl_* ! wl_pointer]]', '[[wl_surface ! 4b], 4b]', 'wl_display',
             'wl_*_surface', 'zz_r'}

# name atoms: (text or None when the `.name` part is absent, predicate, names the pseudo messages explicitly?)
NAME_ATOMS = [
    (None, ALL, False),
    ('commit', lambda n: n == 'commit', False),
    ('new', lambda n: n == 'new', True),
    ('destroyed', lambda n: n == 'destroyed', True),
    ('', ALL, False),
    ('set_*', wild('set_*'), False),
    ('*', ALL, False),
    ('[commit, attach]', lambda n: n in ('commit', 'attach'), False),
    ('[* ! commit]', lambda n: n != 'commit', False),
    ('[new, commit]', lambda n: n in ('new', 'commit'), True),
    ('*t*', wild('*t*'), False),
    ('set_*l', wild('set_*l'), False),
    ('comm*i', wild('comm*i'), False),
    ('*_scale', wild('*_scale'), False),
    ('[commit, [set_* ! set_title]]', lambda n: n == 'commit' or (n.startswith('set_') and n != 'set_title'), False),
    ('[[* ! commit], commit]', ALL, False),
    ('comm*mit', wild('comm*mit'), False),
    ('set_*_title', wild('set_*_title'), False),
]


def a_int(v):
    def f(a):
        if a['kind'] == 'int':
            return a['value'] == v
        if a['kind'] == 'float':
            return a['value'] == v
        if a['kind'] == 'fd':
            return None if a['value'] == v else False     # documentation does not say whether an fd has an integer value
        if a['kind'] in ('obj', 'new'):
            return None if a['obj'][1] == v else False     # nor whether an object id is one
        return False
    return f


def a_named(n):
    return lambda a: a['name'] == n


def a_word(w):
    f = wild(w)

    def g(a):
        if a['kind'] == 'int':
            return any(f(l) for l in a.get('labels', []))
        if a['kind'] in ('obj', 'new'):
            return f(a['obj'][0])
        if a['kind'] == 'nil':
            return a.get('type') is not None and f(a['type'])
        return False
    return g


def a_and(*fs):
    return lambda a: and3(*[f(a) for f in fs])


def a_or(*fs):
    return lambda a: or3(*[f(a) for f in fs])


def a_nil(a):
    return a['kind'] == 'nil'


def a_str(s):
    return lambda a: a['kind'] == 'str' and a['value'] == s


def a_float(v):
    return lambda a: a['kind'] == 'float' and a['value'] == v


def a_objid(i, g=None):
    return lambda a: a['kind'] in ('obj', 'new') and a['obj'][1] == i and (g is None or a['obj'][2] == g)


def argl(pos, neg=()):
    """Every positive item is satisfied by some argument and no negative item by any."""
    def f(args):
        p = all3(any3(pi(a) for a in args) for pi in pos)
        n = any3(ni(a) for ni in neg for a in args)
        return and3(p, not3(n))
    return f


ARG_ATOMS = [
    (None, ALL),
    ('()', ALL),
    ('(0)', argl([a_int(0)])),
    ('(x=)', argl([a_named('x')])),
    ('(x=0)', argl([a_and(a_named('x'), a_int(0))])),
    ('(x=0, y=0)', argl([a_and(a_named('x'), a_int(0)), a_and(a_named('y'), a_int(0))])),
    ('(nil)', argl([a_nil])),
    ('(pressed)', argl([a_word('pressed')])),
    ('("two words")', argl([a_str('two words')])),
    ('(! 0)', argl([], [a_int(0)])),
    ('([x=0, scale=0])', argl([a_or(a_and(a_named('x'), a_int(0)), a_and(a_named('scale'), a_int(0)))])),
    ('(wl_buffer)', argl([a_word('wl_buffer')])),
    ('(state=pressed)', argl([a_and(a_named('state'), a_word('pressed'))])),
    ('(1.5)', argl([a_float(1.5)])),
    ('(0 ! x=0)', argl([a_int(0)], [a_and(a_named('x'), a_int(0))])),
    ('(=0)', argl([a_int(0)])),
    ('(state=[pressed, released])', argl([a_and(a_named('state'), a_or(a_word('pressed'), a_word('released')))])),
    ('(@4a)', argl([a_objid(4, 0)])),
    ('(272, 1)', argl([a_int(272), a_int(1)])),
    ('(2)', argl([a_int(2)])),
    ('(keyboard)', argl([a_word('keyboard')])),
    ('(serial=, time=)', argl([a_named('serial'), a_named('time')])),
    ('(wl_*)', argl([a_word('wl_*')])),
    ('(! nil)', argl([], [a_nil])),
    ('(surface=wl_surface)', argl([a_and(a_named('surface'), a_word('wl_surface'))])),
    ('(height=3 ! 4096)', argl([a_and(a_named('height'), a_int(3))], [a_int(4096)])),
    ('(wl_*f)', argl([a_word('wl_*f')])),
    ('(*ssed)', argl([a_word('*ssed')])),
    ('(pres*e)', argl([a_word('pres*e')])),
    ('(state=[released, [* ! released]])', argl([a_and(a_named('state'), a_word('*'))])),
    ('(time=[100, [* ! 100, 101]])', argl([a_and(a_named('time'), a_or(a_int(100), lambda a: a['kind'] == 'int' and a['value'] not in (100, 101)))])),
    ('(s*l=)', argl([lambda a: a['name'] is not None and fnmatch.fnmatchcase(a['name'], 's*l')])),
    # more items than the message has arguments: one argument may satisfy several items
    ('(scale=, 2)', argl([a_named('scale'), a_int(2)])),
    ('(id=, wl_surface, surface=)', argl([a_named('id'), a_word('wl_surface'), a_named('surface')])),
    # negative whole numbers; alternatives of different kinds that are spelled (and printed) alike
    ('(x=-5)', argl([a_and(a_named('x'), a_int(-5))])),
    ('(-10)', argl([a_int(-10)])),
    ('(! -5)', argl([], [a_int(-5)])),
    ('(["wl_seat", wl_seat])', argl([a_or(a_str('wl_seat'), a_word('wl_seat'))])),
    ('([wl_seat, "wl_seat"])', argl([a_or(a_word('wl_seat'), a_str('wl_seat'))])),
    ('(pres*ssed)', argl([a_word('pres*ssed')])),
    ('("a  b")', argl([a_str('a  b')])),
    ('("a b")', argl([a_str('a b')])),
    ('(title="a  b")', argl([a_and(a_named('title'), a_str('a  b'))])),
    # several exclusions: any one of them excludes
    ('(! x=0, 3)', argl([], [a_and(a_named('x'), a_int(0)), a_int(3)])),
    ('(0 ! 2, 272)', argl([a_int(0)], [a_int(2), a_int(272)])),
]


def triples(m):
    yield (m.obj, m.name, m.args, False)
    for o in m.news:
        yield (o, 'new', [], True)
    if m.destroyed:
        yield (m.destroyed, 'destroyed', [], True)


def pattern(c, o, n, a):
    """conn / object / name / args atoms -> denotation of `c o.n(a)`."""
    explicit = n[2]

    def f(m):
        if m.orphan and c[0] not in ('', '*:'):
            return None
        if not c[1](m.conn):
            return False
        res = False
        for (obj, name, args, pseudo) in triples(m):
            r = and3(o[1](obj), n[1](name), a[1](args))
            if pseudo and not explicit and r is not False:
                r = None      # `.new` / `.destroyed` only decided when the pattern names them
            res = or3(res, r)
        return res
    return f


def bare(c, o):
    """A bare object: messages on it, mentioning it, creating it or destroying it."""
    typelike = o[0] in TYPE_LIKE

    def f(m):
        if m.orphan and c[0] not in ('', '*:'):
            return None
        if not c[1](m.conn):
            return False
        if any(o[1](t[0]) for t in triples(m)):
            return True
        res = False
        for a in m.args:
            if a['kind'] in ('obj', 'new') and o[1](a['obj']):
                return True
            if a['kind'] == 'nil' and typelike:
                # a nil of the atom's own type: whether "mentioning" covers it is not documented.  A nil of another type, or
                # of no known type, mentions no object of that type.
                t = a.get('type')
                try:
                    own = t is not None and bool(o[1]((t, 0, None)))
                except Exception:
                    own = True
                if own:
                    res = None
        return res
    return f


def pattern_text(c, o, n, a):
    return c[0] + (' ' if c[0] else '') + o[0] + ('.' + n[0] if n[0] is not None else '') + (a[0] or '')


def patterns(conn_atoms, obj_atoms, name_atoms, arg_atoms):
    """All well-formed combinations -> (text, denotation)."""
    for c in conn_atoms:
        for o in obj_atoms:
            for n in name_atoms:
                for a in arg_atoms:
                    if n[0] is None and a[0] is None:
                        if o[0] in ('', '*') and c[0] in ('', '*:'):
                            continue       # the constants are handled separately
                        yield pattern_text(c, o, n, a), bare(c, o)
                        continue
                    if n[2] and a[0] not in (None, '()'):
                        continue           # new/destroyed with arguments: not documented
                    if o[0] == '' and n[0] in (None, '') and a[0] in (None, '()') and c[0] == '':
                        continue
                    yield pattern_text(c, o, n, a), pattern(c, o, n, a)


def lst(pos, neg=()):
    """Top-level list `p, q ! r, s` of (text, denotation) pairs."""
    text = ', '.join(t for t, _ in pos)
    if neg:
        text += ' ! ' + ', '.join(t for t, _ in neg)
    ps = [d for _, d in pos] or [lambda m: True]
    ns = [d for _, d in neg]

    def f(m):
        return and3(any3(p(m) for p in ps), not3(any3(n(m) for n in ns)))
    return text.strip(), f


# ---------------------------------------------------------------------------
# Respellings that must not change the selection

PUNCT = set(':.,!()[]=')


def tokens(text):
    out, cur, q = [], '', False
    for pos, ch in enumerate(text):
        if ch == '.' and cur and cur[-1].isdigit() and text[pos + 1:pos + 2].isdigit():
            cur += ch        # decimal point of a number, not the object.name separator
            continue
        if q:
            cur += ch
            if ch == '"':
                q = False
                out.append(cur)
                cur = ''
        elif ch == '"':
            if cur:
                out.append(cur)
            cur = ch
            q = True
        elif ch in PUNCT:
            if cur:
                out.append(cur)
            cur = ''
            out.append(ch)
        elif ch == ' ':
            if cur:
                out.append(cur)
            cur = ''
        else:
            cur += ch
    if cur:
        out.append(cur)
    return out


def spaced(text, mask=None):
    """Respell with blanks at token boundaries: mask None = a blank at every boundary,
    mask 0 = no blanks at all, otherwise bit (i mod 16) of mask decides boundary i."""
    toks = tokens(text)
    out = ''
    for i, t in enumerate(toks):
        out += t
        if i + 1 < len(toks) and (mask is None or (mask >> (i % 16)) & 1):
            out += ' '
    return out


def bracketed(c, o, n, a):
    """The same pattern with each simple component wrapped in redundant brackets."""
    def wrap(t):
        return t if (not t or t.startswith('[')) else '[' + t + ']'
    ct = (wrap(c[0][:-1]) + ':') if c[0] else ''
    ot_ = wrap(o[0])
    nt = None if n[0] is None else wrap(n[0])
    at = a[0]
    if at and at not in ('()',) and ',' not in at and '!' not in at and not at.startswith('(['):
        at = '([' + at[1:-1] + '])'
    return ct + (' ' if ct else '') + ot_ + ('.' + nt if nt is not None else '') + (at or '')
