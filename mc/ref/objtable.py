"""Reference object table and the well-formed history alphabet of C02/C03/C04/C14.

Written from the property statements: per connection `id -> [incarnation...]`;
a new-id argument creates the next incarnation (interface from the protocol, or from
the interface-name argument for wl_registry.bind); wl_display.delete_id destroys the
latest incarnation; a server-range id handed out again ends the previous
incarnation; nothing else creates, retypes, relabels or destroys.
"""
from . import letters
from . import wlprint

SERVER_BASE = 0xff000000
FACTORY_ID = 5          # zz_f@5, bound in the prelude; parent of every generic creation
REGISTRY_ID = 2


class Inc:
    __slots__ = ('type', 'created_us', 'destroyed_us', 'index')

    def __init__(self, type_, created_us, index):
        self.type = type_
        self.created_us = created_us
        self.destroyed_us = None
        self.index = index

    @property
    def alive(self):
        return self.destroyed_us is None


class RefConn:
    """Reference state of one connection."""

    def __init__(self):
        self.objs = {1: [Inc('wl_display', None, 0)]}
        self.nmsg = 0
        self.dead = []   # (id, index) pairs that were destroyed: must stay dead

    def latest(self, oid):
        l = self.objs.get(oid)
        return l[-1] if l else None

    def live(self, oid):
        o = self.latest(oid)
        return o is not None and o.alive

    def create(self, oid, type_, t_us):
        l = self.objs.setdefault(oid, [])
        if l and l[-1].alive:
            assert oid >= SERVER_BASE, 'reference: client id reused while alive'
            l[-1].destroyed_us = t_us
            self.dead.append((oid, l[-1].index))
        inc = Inc(type_, t_us, len(l))
        l.append(inc)
        return inc

    def destroy(self, oid, t_us):
        o = self.latest(oid)
        o.destroyed_us = t_us
        self.dead.append((oid, o.index))
        return o

    def label(self, oid, index=-1):
        o = self.objs[oid][index]
        return '%s@%d%s' % (o.type, oid, letters.word(o.index))

    def key(self):
        """Canonical state for merging: per id, number of incarnations, type and
        liveness of the latest."""
        return sorted((oid, len(l), l[-1].type, l[-1].alive) for oid, l in self.objs.items())

    def all_incs(self):
        for oid, l in sorted(self.objs.items()):
            for o in l:
                yield oid, o


# ---------------------------------------------------------------------------
# Events.  Every event is a JSON list; `build` turns it into a structured
# libwayland message (client-side log; `server_side` flips every direction) and the
# expectation for the line the tool must print.

CLIENT_IDS = (3, 4)
SERVER_IDS = (SERVER_BASE, SERVER_BASE + 1)
TYPES = ('zz_a', 'wl_callback')
BIND_TYPE = 'zz_b'
BIND_TYPES = ('zz_b', 'zz_c')       # the same id may be bound to different interfaces over time

PRELUDE = (['get_registry'], ['bind', FACTORY_ID, 'zz_f'])


def enabled(ref, client_ids=CLIENT_IDS, server_ids=SERVER_IDS, types=TYPES, with_foreign=True, late_registry=False):
    """The well-formed events enabled in reference state `ref` (simplest first).
    late_registry: histories without the fixed prelude, in which get_registry is an
    ordinary event (possible whenever id 2 is free) and id 2 is an ordinary client id."""
    evs = []
    has_registry = ref.live(REGISTRY_ID) and ref.latest(REGISTRY_ID).type == 'wl_registry'
    has_factory = ref.live(FACTORY_ID) and ref.latest(FACTORY_ID).type == 'zz_f'
    fixed = (1, FACTORY_ID) if late_registry else (1, REGISTRY_ID, FACTORY_ID)
    known = [i for i in sorted(ref.objs) if i not in fixed and not (i == REGISTRY_ID and has_registry)]
    for i in known:
        evs.append(['use', i])
    if late_registry and not ref.live(REGISTRY_ID):
        evs.append(['get_registry'])
    if late_registry and has_registry and not ref.live(FACTORY_ID):
        evs.append(['bind', FACTORY_ID, 'zz_f'])
    for i in client_ids:
        if not ref.live(i):
            for t in types:
                if t == 'wl_callback' or has_factory:
                    evs.append(['creq', i, t])
    for i in client_ids:
        if ref.live(i) and not (i == REGISTRY_ID and has_registry):
            evs.append(['del', i])
    if has_factory:
        for i in server_ids:
            for t in types:
                evs.append(['cev', i, t])
    if has_registry:
        for i in client_ids:
            if not ref.live(i):
                for bt in BIND_TYPES:
                    evs.append(['bind', i, bt])
    # an event that was still on its way when its target was destroyed hands out a new server-side object
    for i in known:
        if not ref.live(i) and i < SERVER_BASE and ref.latest(i).type.startswith('zz_'):      # an interface no description fixes
            evs.append(['cfrom', i, server_ids[0], types[0]])
    if has_factory:
        for i in known:
            evs.append(['ment', i])
        if with_foreign:
            for i in known:
                evs.append(['foreign', i])
    return evs


def build(ev, ref, t_us, server_side=False, conn=None, queue=None, decor=None):
    """Apply event `ev` to reference state `ref` at time t_us.  Returns
    (structured message, expectation).  expectation = {'target': label,
    'args': [(kind, label-or-None)...], 'destroyed': None | (label, lifespan_us)}"""
    k = ev[0]
    exp = {'destroyed': None}
    if k == 'get_registry':
        sent, iface, oid, name = True, 'wl_display', 1, 'get_registry'
        exp['target'] = ref.label(1)
        rid = getattr(ref, 'registry_id', REGISTRY_ID)
        ref.create(rid, 'wl_registry', t_us)
        args = [['new', 'wl_registry', rid]]
        exp['args'] = [('new', ref.label(rid))]
    elif k == 'bind':
        _, cid, t = ev
        rid = getattr(ref, 'registry_id', REGISTRY_ID)
        sent, iface, oid, name = True, 'wl_registry', rid, 'bind'
        exp['target'] = ref.label(rid)
        ref.create(cid, t, t_us)
        args = [['int', 9], ['str', t], ['int', 1], ['new', None, cid]]
        exp['args'] = [('int', None), ('str', None), ('int', None), ('new', ref.label(cid))]
    elif k == 'creq':
        _, cid, t = ev
        if t == 'wl_callback':
            sent, iface, oid, name = True, 'wl_display', 1, 'sync'
        else:
            sent, iface, oid, name = True, 'zz_f', FACTORY_ID, 'make'
        exp['target'] = ref.label(oid)
        ref.create(cid, t, t_us)
        args = [['new', t, cid]]
        exp['args'] = [('new', ref.label(cid))]
    elif k == 'cev':
        _, sid, t = ev
        sent, iface, oid, name = False, 'zz_f', FACTORY_ID, 'offer'
        exp['target'] = ref.label(oid)
        ref.create(sid, t, t_us)
        args = [['new', t, sid]]
        exp['args'] = [('new', ref.label(sid))]
    elif k == 'cfrom':
        _, i, sid, t = ev
        o = ref.latest(i)
        sent, iface, oid, name = False, o.type, i, 'spawned'
        exp['target'] = ref.label(i)
        ref.create(sid, t, t_us)
        args = [['new', t, sid]]
        exp['args'] = [('new', ref.label(sid))]
    elif k == 'del':
        _, cid = ev
        sent, iface, oid, name = False, 'wl_display', 1, 'delete_id'
        exp['target'] = ref.label(1)
        victim = ref.latest(cid)
        lab = ref.label(cid)
        ref.destroy(cid, t_us)
        args = [['int', cid]]
        exp['args'] = [('int', None)]
        exp['destroyed'] = (lab, t_us - victim.created_us)
    elif k == 'use':
        _, i = ev
        o = ref.latest(i)
        if o.type == 'wl_callback':
            sent, name = False, 'done'
        else:
            sent, name = True, 'poke'
        iface, oid = o.type, i
        exp['target'] = ref.label(i)
        args = [['int', 7]]
        exp['args'] = [('int', None)]
    elif k == 'ment':
        _, i = ev
        o = ref.latest(i)
        sent, iface, oid, name = True, 'zz_f', FACTORY_ID, 'ref'
        exp['target'] = ref.label(oid)
        args = [['obj', o.type, i]]
        exp['args'] = [('obj', ref.label(i))]
    elif k == 'quote':
        # a received message whose string argument quotes a sent-looking log line of another connection
        sent, iface, oid, name = False, 'wl_display', 1, 'error'
        exp['target'] = ref.label(1)
        args = [['nil'], ['int', 3], ['str', '[1.000] <%s>  -> wl_display@1.sync(new id wl_callback@9' % ev[1]]]
        exp['args'] = [('nil', None), ('int', None), ('str', None)]
    elif k == 'orphan':
        # a message on an id this history never created (the log started late): shown unresolved, still counted
        sent, iface, oid, name = True, 'zz_q', (ev[1] if len(ev) > 1 else 77), 'foo'
        exp['target'] = 'zz_q@%d?' % oid
        exp['orphan'] = oid
        args = [['int', 1]]
        exp['args'] = [('int', None)]
    elif k == 'reject':
        # wl_display.delete_id for an id created before the log began: a message the tool cannot take in - it reports the
        # line as unprocessed and records nothing (the connection the line belongs to is opened all the same)
        sent, iface, oid, name = False, 'wl_display', 1, 'delete_id'
        exp['target'] = ref.label(1)
        exp['rejected'] = True
        args = [['int', 88]]
        exp['args'] = [('int', None)]
        ref.nmsg -= 1
    elif k == 'foreign':
        _, i = ev
        sent, iface, oid, name = True, 'zz_f', FACTORY_ID, 'delete_id'
        exp['target'] = ref.label(oid)
        args = [['int', i]]
        exp['args'] = [('int', None)]
    else:
        raise ValueError(ev)
    if decor and k in ('creq', 'cev', 'ment', 'use') and iface.startswith('zz_'):      # interfaces the protocol files do not fix
        # further arguments beside the one that matters: strings are printed verbatim by libwayland, quotes included
        args = args + [list(a) for a in decor]
        exp['args'] = exp['args'] + [(a[0], None) for a in decor]
    ref.nmsg += 1
    if server_side:
        sent = not sent
    exp['sent'] = sent
    exp['name'] = name
    msg = {'t_us': t_us, 'sent': sent, 'iface': iface, 'id': oid, 'name': name, 'args': args,
           'queue': queue, 'conn': conn}
    return msg, exp


def check_line(rec, exp):
    """Compare a parsed output record (outparse 'message') with the expectation.
    Returns a list of (what, expected, observed)."""
    from .. import outparse
    bad = []
    if exp.get('orphan'):
        if rec['obj']['id'] != exp['orphan'] or rec['obj']['resolved'] or rec['name'] != exp['name']:
            bad.append(('target', exp['target'], outparse.label(rec['obj'])))
        return bad
    if outparse.label(rec['obj']) != exp['target'] or not rec['obj']['resolved']:
        bad.append(('target', exp['target'], outparse.label(rec['obj'])))
    if rec['name'] != exp['name']:
        bad.append(('name', exp['name'], rec['name']))
    if rec['sent'] is not None and rec['sent'] != exp['sent']:      # None: the display marks no direction
        bad.append(('direction', exp['sent'], rec['sent']))
    if len(rec['args']) != len(exp['args']):
        bad.append(('arity', len(exp['args']), len(rec['args'])))
    else:
        for i, (a, (kind, lab)) in enumerate(zip(rec['args'], exp['args'])):
            if a['kind'] != kind:
                bad.append(('arg%d kind' % i, kind, a['kind']))
            elif kind in ('obj', 'new'):
                if outparse.label(a) != lab or not a['resolved']:
                    bad.append(('arg%d object' % i, lab, ('' if a['resolved'] else 'unresolved ') + outparse.label(a)))
    d = rec['destroyed']
    if exp['destroyed'] is None:
        if d is not None:
            bad.append(('destroyed annotation', None, outparse.label(d)))
    else:
        lab, life_us = exp['destroyed']
        if d is None:
            bad.append(('destroyed annotation', lab, None))
        else:
            if outparse.label(d) != lab:
                bad.append(('destroyed object', lab, outparse.label(d)))
            want = '%.4f' % (life_us / 1e6)
            digits = len(d['after'].split('.')[1]) if d['after'] and '.' in d['after'] else 0
            # one unit of the last displayed digit (the number of digits shown is presentation)
            if d['after'] is None or abs(float(d['after']) - life_us / 1e6) > 10 ** -digits * 0.5000001 + 1e-12:
                bad.append(('lifespan', want, d['after']))
    return bad
