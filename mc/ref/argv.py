"""Reference for C19: splitting the command line at the first run/gdb marker and
interpreting what is left of it.  Written from the property statement and the
tool's --help text, not from the implementation."""

MARKERS = {'-r': 'run', '--run': 'run', '-g': 'gdb', '--gdb': 'gdb'}
FLAGS = {'-C': 'no_color', '--no-color': 'no_color', '--color': 'color', '--supress': 'supress', '--verbose': 'verbose',
         '-p': 'pipe', '--pipe': 'pipe'}
VALUED = {'-f': 'filter', '--filter': 'filter', '-b': 'break', '--break': 'break', '-l': 'load', '--load': 'load',
          '--libwayland': 'libwayland'}


def is_cluster(w):
    return len(w) > 2 and w[0] == '-' and w[1] != '-'


def split(words):
    """-> (left, mode or None, right, error) ; the first marker - on its own, or as the
    last letter of a single-dash cluster - splits."""
    for i, w in enumerate(words):
        if w in MARKERS:
            return words[:i], MARKERS[w], words[i + 1:], None
        if is_cluster(w):
            body = w[1:]
            if 'g' in body[:-1] or 'r' in body[:-1]:
                return None, None, None, 'marker letter not last in cluster ' + w
            if body[-1] in 'gr':
                return words[:i] + [w[:-1]], MARKERS['-' + body[-1]], words[i + 1:], None
    return list(words), None, [], None


def interpret_left(left):
    """-> (settings dict, error).  Flags may be clustered (-Cp); valued options take
    the next word, which must not look like an option."""
    st = {'no_color': False, 'color': False, 'supress': False, 'verbose': False, 'pipe': False,
          'filter': None, 'break': None, 'load': None, 'libwayland': None, 'repeated': []}
    i = 0
    while i < len(left):
        w = left[i]
        if w in FLAGS:
            st[FLAGS[w]] = True
        elif w in VALUED:
            if i + 1 >= len(left):
                return None, 'missing value for ' + w
            v = left[i + 1]
            if v.startswith('-') and ' ' not in v and len(v) > 1:
                return None, 'value of %s looks like an option: %s' % (w, v)
            if st[VALUED[w]] is not None:
                # an option given twice: whether the last value counts or the values add up is not specified
                st['repeated'].append((VALUED[w], st[VALUED[w]]))
            st[VALUED[w]] = v
            i += 1
        elif is_cluster(w) and all(('-' + ch) in FLAGS for ch in w[1:]):
            for ch in w[1:]:
                st[FLAGS['-' + ch]] = True
        else:
            return None, 'unrecognised word ' + w
        i += 1
    return st, None


def expect(words):
    """words: everything after the program name.  -> dict(outcome=..., ...)
    outcome: 'error' (diagnostic, non-zero exit or error report, nothing runs)
             'usage' (usage printed, nothing runs)
             'ok'    (mode, left, right, settings)"""
    left, marker, right, err = split(words)
    if err:
        return {'outcome': 'error', 'why': err}
    st, err = interpret_left(left)
    if err:
        return {'outcome': 'error', 'why': err}
    modes = []
    if marker:
        modes.append(marker)
    if st['load'] is not None:
        modes.append('load')
    if st['pipe']:
        modes.append('pipe')
    if len(modes) != 1:
        return {'outcome': 'usage', 'why': 'modes: %r' % modes}
    return {'outcome': 'ok', 'mode': modes[0], 'left': left, 'right': right, 'settings': st}
