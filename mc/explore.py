"""Enumeration engines: PROD (product enumeration), BFS (explicit-state search by
replay), ILV (interleavings) and DEV (deviation-bounded placements), sharded over
forked workers.  No sampling anywhere: every engine enumerates a finite space
completely or reports the cap it hit.
"""
import hashlib
import itertools
import json
import multiprocessing
import os
import time
import traceback

from .report import Violation

NWORKERS = int(os.environ.get('VERIF_WORKERS', '0')) or min(16, os.cpu_count() or 1)
WORKER_MEM_GB = int(os.environ.get('VERIF_WORKER_MEM_GB', '3'))     # address-space limit of one forked worker
CASE_TIMEOUT = int(os.environ.get('VERIF_CASE_TIMEOUT', '90'))     # seconds; ordinary cases take milliseconds (real-process cases: seconds)
STOP_AFTER_VIOLATIONS = 60      # per worker: a tree this broken needs no further exploration
_ctx = multiprocessing.get_context('fork')
MAX_VIOLS_PER_WORKER = 40


def h64(obj):
    s = obj if isinstance(obj, str) else json.dumps(obj, sort_keys=True, default=repr)
    return int.from_bytes(hashlib.blake2b(s.encode('utf-8', 'surrogatepass'), digest_size=8).digest(), 'big')


class HarnessError(Exception):
    pass


class CaseTimeout(BaseException):
    pass


def _on_alarm(signum, frame):
    raise CaseTimeout()


def timed(fn, arg, seconds=None):
    """Run fn(arg) under an alarm.  A case that does not come back is reported, it does not hang the check."""
    import signal
    old = signal.signal(signal.SIGALRM, _on_alarm)
    signal.alarm(seconds or CASE_TIMEOUT)
    try:
        return fn(arg)
    finally:
        signal.alarm(0)
        signal.signal(signal.SIGALRM, old)


class Result:
    def __init__(self):
        self.evaluations = 0
        self.states = 0
        self.transitions = 0
        self.validated = 0
        self.nontrivial = 0
        self.outcomes = 0
        self.samples = []
        self.violations = []
        self.bound = None
        self.exhaustive = True
        self.extra = {}
        self.rerun = None


class Eval:
    """What evaluating one case yields."""
    __slots__ = ('viols', 'outcome', 'nontrivial', 'transitions', 'validated')

    def __init__(self, viols=(), outcome=None, nontrivial=False, transitions=1, validated=1):
        self.viols = list(viols)
        self.outcome = outcome
        self.nontrivial = nontrivial
        self.transitions = transitions
        self.validated = validated


class _VBag:
    """Keeps at most MAX_VIOLS_PER_WORKER violations, preferring small witnesses and
    at least one per kind."""

    def __init__(self):
        self.items = []
        self.total = 0

    def add(self, v):
        self.total += 1
        t = (v.kind, v.case, v.detail)
        if len(self.items) < MAX_VIOLS_PER_WORKER:
            self.items.append(t)
            return
        kinds = {}
        for i, it in enumerate(self.items):
            kinds.setdefault(it[0], []).append(i)
        if v.kind not in kinds:
            # evict the largest witness of the most populous kind
            k = max(kinds, key=lambda k: len(kinds[k]))
            i = max(kinds[k], key=lambda i: len(repr(self.items[i][1])))
            self.items[i] = t
            return
        i = max(kinds[v.kind], key=lambda i: len(repr(self.items[i][1])))
        if len(repr(v.case)) < len(repr(self.items[i][1])):
            self.items[i] = t


def _fork_map(fn, nshards):
    """Run fn(rank) in nshards forked processes; return their results in rank order."""
    procs = []
    for r in range(nshards):
        parent, child = _ctx.Pipe(duplex=False)

        def body(r=r, child=child):
            try:
                # a runaway case (a list that doubles on every step) must end as MemoryError inside the code that
                # allocates, not as the machine's out-of-memory killer taking the worker away
                import resource
                soft, hard = resource.getrlimit(resource.RLIMIT_AS)
                want = WORKER_MEM_GB << 30
                if hard == resource.RLIM_INFINITY or want <= hard:
                    resource.setrlimit(resource.RLIMIT_AS, (want, hard))
                child.send(('ok', fn(r)))
            except BaseException:
                child.send(('err', traceback.format_exc()))
            finally:
                child.close()
        p = _ctx.Process(target=body)
        p.start()
        child.close()
        procs.append((p, parent))
    results, err = [], None
    for p, parent in procs:
        try:
            status, payload = parent.recv()
        except EOFError:
            status, payload = 'err', 'worker died without a result'
        p.join()
        if status == 'err':
            err = payload
        else:
            results.append(payload)
    if err:
        raise HarnessError(err)
    return results


def prod(gen_factory, eval_fn, workers=None, nsamples=4, seed=0, bound=None, cap=None):
    """Evaluate eval_fn on every case of gen_factory() (a deterministic generator),
    sharded by index modulo the worker count.  `cap` (a count) is a safety net: if it
    is hit the result says so and is not reported as exhaustive."""
    n = workers or NWORKERS
    # which cases are written out as samples rotates with the seed; the explored set
    # and the verdict do not depend on it
    sample_idx = {0, 3 + seed % 7, 40 + seed % 31, 700 + seed % 211, 9000 + seed % 997, 100000 + seed % 9973}

    def shard(rank):
        out = {'evaluations': 0, 'transitions': 0, 'validated': 0, 'capped': False,
               'outcomes': set(), 'nontrivial': set(), 'samples': []}
        bag = _VBag()
        timeouts = 0
        t_start = time.time()
        for idx, case in enumerate(gen_factory()):
            if cap is not None and idx >= cap:
                out['capped'] = True
                break
            if idx % n != rank:
                continue
            try:
                ev = timed(eval_fn, case)
            except CaseTimeout:
                ev = Eval([Violation('timeout', case, {'seconds': CASE_TIMEOUT, 'note': 'the case did not come back; '
                                     'cases of this part normally take milliseconds'})])
                timeouts += 1
            out['evaluations'] += 1
            out['transitions'] += ev.transitions
            out['validated'] += ev.validated
            if ev.outcome is not None:
                out['outcomes'].add(h64(ev.outcome))
            if ev.nontrivial:
                out['nontrivial'].add(h64(case))
            if idx in sample_idx:
                out['samples'].append((idx, case))
            for v in ev.viols:
                bag.add(v)
            if timeouts >= 2 or bag.total >= STOP_AFTER_VIOLATIONS or (bag.total and time.time() - t_start > 45):
                out['capped'] = True       # stop early: reported as not exhaustive
                break
        out['viols'] = bag.items
        out['nviol'] = bag.total
        return out

    outs = _fork_map(shard, n)
    res = Result()
    outcomes, nontriv, samples = set(), set(), []
    for o in outs:
        res.evaluations += o['evaluations']
        res.transitions += o['transitions']
        res.validated += o['validated']
        outcomes |= o['outcomes']
        nontriv |= o['nontrivial']
        samples += o['samples']
        if o['capped']:
            res.exhaustive = False
        for k, c, d in o['viols']:
            res.violations.append(Violation(k, c, d))
        res.extra['violations_total'] = res.extra.get('violations_total', 0) + o['nviol']
    res.states = res.evaluations
    res.outcomes = len(outcomes)
    res.nontrivial = len(nontriv)
    res.samples = [c for _, c in sorted(samples, key=lambda x: x[0])][:nsamples]
    res.bound = bound
    res.rerun = lambda: prod(gen_factory, eval_fn, workers=workers, nsamples=nsamples, seed=seed, bound=bound, cap=cap)
    return res


def bfs(expand, depth, workers=None, seed=0, merge=True, bound=None, max_states=None):
    """Level-synchronous explicit-state search.  A state is the event history that
    reaches it; expand(hist) rebuilds the implementation by replay and returns, for
    every enabled event, a tuple (event, key, Eval).  `key` is the canonical state
    key used for merging (None or merge=False: never merged)."""
    n = workers or NWORKERS
    frontier = [()]
    seen = set()
    res = Result()
    res.states = 1
    outcomes, nontriv = set(), set()
    completed = 0
    samples = []
    bag = _VBag()
    for d in range(depth):
        if not frontier:
            break
        fr = frontier

        nshards = n if len(fr) >= 4 * n else 1

        def shard(rank):
            out = []
            t_start = time.time()
            nviol = 0
            for i in range(rank, len(fr), nshards):
                hist = fr[i]
                try:
                    children = timed(expand, hist, CASE_TIMEOUT * 2)
                except CaseTimeout:
                    children = [(['<expansion>'], None, Eval([Violation('timeout', {'history': [list(x) for x in hist]},
                                                                       {'seconds': CASE_TIMEOUT * 2})]))]
                    for (ev, key, e) in children:
                        out.append((i, ev, key, [(v.kind, v.case, v.detail) for v in e.viols], None, False, 1, 0))
                    out.append('stopped')      # one expansion that does not come back: the rest of this shard is not tried
                    break
                nviol += sum(len(e.viols) for (_, _, e) in children)
                if nviol >= STOP_AFTER_VIOLATIONS or (nviol and time.time() - t_start > 45):
                    for (ev, key, e) in children:
                        out.append((i, ev, key, e.viols and [(v.kind, v.case, v.detail) for v in e.viols],
                                    h64(e.outcome) if e.outcome is not None else None,
                                    e.nontrivial, e.transitions, e.validated))
                    out.append('stopped')
                    break
                for (ev, key, e) in children:
                    out.append((i, ev, key, e.viols and [(v.kind, v.case, v.detail) for v in e.viols],
                                h64(e.outcome) if e.outcome is not None else None,
                                e.nontrivial, e.transitions, e.validated))
            return out

        outs = _fork_map(shard, nshards)
        stopped = any(c == 'stopped' for o in outs for c in o)
        children = sorted((c for o in outs for c in o if c != 'stopped'), key=lambda c: (c[0], json.dumps(c[1], default=repr)))
        nxt = []
        for (i, ev, key, viols, oh, nt, tr, va) in children:
            res.transitions += 1
            res.evaluations += 1
            res.validated += va
            hist = fr[i] + (ev,)
            if oh is not None:
                outcomes.add(oh)
            if nt:
                nontriv.add(h64(list(hist)))
            for (k, c, dd) in (viols or ()):
                bag.add(Violation(k, c, dd))
            if viols:
                continue  # do not explore beyond a violating state
            if merge and key is not None:
                kh = h64(key)
                if kh in seen:
                    continue
                seen.add(kh)
            res.states += 1
            nxt.append(hist)
        if nxt:
            samples.append(list(nxt[(seed * 31 + d) % len(nxt)]))
        frontier = nxt
        if stopped:
            res.exhaustive = False     # violations (or cases that do not come back) piled up: reported, search ended early
            break
        completed = d + 1
        if max_states is not None and res.states > max_states and d + 1 < depth:
            res.exhaustive = False
            break
    res.outcomes = len(outcomes)
    res.nontrivial = len(nontriv)
    res.samples = samples[-3:]
    for k, c, dd in bag.items:
        res.violations.append(Violation(k, c, dd))
    res.extra['violations_total'] = bag.total
    res.bound = dict(bound or {}, depth_completed=completed)
    res.rerun = lambda: bfs(expand, depth, workers=workers, seed=seed, merge=merge, bound=bound, max_states=max_states)
    return res


# ---------------------------------------------------------------------------
# ILV: order-preserving interleavings of k sequences

def interleavings(lengths):
    """All merges of sequences with the given lengths, as tuples of sequence indexes
    (multiset permutations in lexicographic order)."""
    total = sum(lengths)
    counts = list(lengths)
    cur = []

    def rec():
        if len(cur) == total:
            yield tuple(cur)
            return
        for i in range(len(counts)):
            if counts[i]:
                counts[i] -= 1
                cur.append(i)
                yield from rec()
                cur.pop()
                counts[i] += 1
    return rec()


def sequences(alphabet, maxlen, minlen=0):
    """All sequences over alphabet with minlen <= length <= maxlen, shortest first."""
    for L in range(minlen, maxlen + 1):
        for t in itertools.product(alphabet, repeat=L):
            yield t


def placements(npos, k):
    """All ways to choose k positions out of npos (DEV: where deviations happen)."""
    return itertools.combinations(range(npos), k)
