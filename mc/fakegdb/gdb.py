"""Environment model of the subset of GDB's Python API that wayland-debug's plugin
uses, over *real memory* laid out by ctypes (sizes, alignment and field offsets are
the platform ABI's).  A Value is (type, address) or an immediate.  Bound to the real
GDB 13.1 by replaying scripts through /verif/gdbstub (see mc/gdbreplay.py).

Only importable by workers that asked for it (sut.bind(fake_gdb=True)): its presence
makes check_gdb() true, exactly as inside GDB.
"""
import ctypes as C
import re
import struct

TYPE_CODE_PTR = 1
TYPE_CODE_STRUCT = 3
TYPE_CODE_UNION = 4
TYPE_CODE_INT = 8
TYPE_CODE_ARRAY = 2
TYPE_CODE_FLT = 9
COMMAND_DATA = 1
STDOUT = 0
STDERR = 1
STDLOG = 2
VERSION = '13.1-model'


class error(RuntimeError):
    pass


class MemoryError(error):
    pass


# ---- the libwayland structures the plugin looks at --------------------------------

class wl_interface(C.Structure):
    pass


class wl_message(C.Structure):
    _fields_ = [('name', C.c_char_p), ('signature', C.c_char_p), ('types', C.POINTER(C.POINTER(wl_interface)))]


wl_interface._fields_ = [('name', C.c_char_p), ('version', C.c_int), ('method_count', C.c_int),
                         ('methods', C.POINTER(wl_message)), ('event_count', C.c_int), ('events', C.POINTER(wl_message))]


class wl_object(C.Structure):
    _fields_ = [('interface', C.POINTER(wl_interface)), ('implementation', C.c_void_p), ('id', C.c_uint32)]


class wl_array(C.Structure):
    _fields_ = [('size', C.c_size_t), ('alloc', C.c_size_t), ('data', C.c_void_p)]


class wl_argument(C.Union):
    _fields_ = [('i', C.c_int32), ('u', C.c_uint32), ('f', C.c_int32), ('s', C.c_char_p), ('o', C.POINTER(wl_object)),
                ('n', C.c_uint32), ('a', C.POINTER(wl_array)), ('h', C.c_int32)]


class wl_list(C.Structure):
    pass


wl_list._fields_ = [('prev', C.POINTER(wl_list)), ('next', C.POINTER(wl_list))]


class wl_closure(C.Structure):
    _fields_ = [('count', C.c_int), ('message', C.POINTER(wl_message)), ('opcode', C.c_uint32), ('sender_id', C.c_uint32),
                ('args', wl_argument * 20), ('link', wl_list), ('proxy', C.c_void_p)]


class wl_connection(C.Structure):
    _fields_ = [('in_buf', C.c_char * 16), ('fd', C.c_int), ('want_flush', C.c_int)]


class wl_display(C.Structure):
    _fields_ = [('proxy_object', wl_object), ('display_pad', C.c_void_p * 2), ('connection', C.POINTER(wl_connection)),
                ('last_error', C.c_int)]


class wl_client(C.Structure):
    _fields_ = [('connection', C.POINTER(wl_connection)), ('source', C.c_void_p), ('display', C.c_void_p)]


class wl_resource(C.Structure):
    _fields_ = [('object', wl_object), ('destroy', C.c_void_p), ('link', wl_list), ('deprecated_destroy_signal', wl_list),
                ('client', C.POINTER(wl_client)), ('data', C.c_void_p)]


NAMED = {'char': C.c_char, 'int': C.c_int, 'struct wl_resource': wl_resource, 'struct wl_object': wl_object,
         'struct wl_closure': wl_closure,
         # the scalar types of C that any GDB knows
         'float': C.c_float, 'double': C.c_double, 'long': C.c_long, 'unsigned int': C.c_uint, 'unsigned': C.c_uint,
         'short': C.c_short, 'unsigned short': C.c_ushort, 'unsigned char': C.c_ubyte, 'signed char': C.c_byte,
         'long long': C.c_longlong, 'unsigned long': C.c_ulong, 'unsigned long long': C.c_ulonglong,
         'int32_t': C.c_int32, 'uint32_t': C.c_uint32, 'int64_t': C.c_int64, 'uint64_t': C.c_uint64, 'size_t': C.c_size_t}


_mem = {}


def _read(addr, size):
    """Read inferior memory the way GDB does: an unreadable address is an error, not a crash."""
    import os
    pid = os.getpid()
    if _mem.get('pid') != pid:
        _mem['pid'] = pid
        _mem['fd'] = os.open('/proc/self/mem', os.O_RDONLY)
    if addr <= 0 or addr >= 1 << 63:
        raise MemoryError('Cannot access memory at address %s' % hex(addr))
    try:
        b = os.pread(_mem['fd'], size, addr)
    except (OSError, OverflowError):
        raise MemoryError('Cannot access memory at address %s' % hex(addr))
    if len(b) != size:
        raise MemoryError('Cannot access memory at address %s' % hex(addr + len(b)))
    return b


def _is_ptr(t):
    return isinstance(t, type) and (issubclass(t, C._Pointer) or t in (C.c_char_p, C.c_void_p))


def _target(t):
    if t is C.c_char_p:
        return C.c_char
    if t is C.c_void_p:
        return None
    return t._type_


class Field:
    def __init__(self, name, bitpos, type_):
        self.name = name
        self.bitpos = bitpos
        self.type = type_


class Type:
    def __init__(self, ct, ptr=0):
        self.ct = ct
        self.ptr = ptr          # extra levels of pointer on top of ct

    @property
    def code(self):
        if self.ptr or _is_ptr(self.ct):
            return TYPE_CODE_PTR
        if issubclass(self.ct, C.Union):
            return TYPE_CODE_UNION
        if issubclass(self.ct, C.Structure):
            return TYPE_CODE_STRUCT
        if issubclass(self.ct, C.Array):
            return TYPE_CODE_ARRAY
        if self.ct in (C.c_float, C.c_double):
            return TYPE_CODE_FLT
        return TYPE_CODE_INT

    @property
    def name(self):
        if self.ptr or _is_ptr(self.ct):
            return None
        if issubclass(self.ct, (C.Structure, C.Union)):
            return self.ct.__name__
        return {C.c_char: 'char', C.c_int: 'int', C.c_uint32: 'uint32_t', C.c_int32: 'int32_t',
                C.c_size_t: 'size_t'}.get(self.ct, self.ct.__name__)

    @property
    def sizeof(self):
        return C.sizeof(C.c_void_p) if self.ptr else C.sizeof(self.ct)

    def pointer(self):
        return Type(self.ct, self.ptr + 1)

    def target(self):
        if self.ptr:
            return Type(self.ct, self.ptr - 1)
        if _is_ptr(self.ct):
            return Type(_target(self.ct))
        if issubclass(self.ct, C.Array):
            return Type(self.ct._type_)
        raise error('Type does not have a target.')

    def fields(self):
        return [Field(n, getattr(self.ct, n).offset * 8, Type(t)) for n, t in self.ct._fields_]

    def strip_typedefs(self):
        return self

    def __str__(self):
        return (self.name or 'T') + '*' * self.ptr


def lookup_type(name):
    if name not in NAMED:
        raise error('No type named %s.' % name)
    return Type(NAMED[name])


class Value:
    """lvalue at an address (type, addr) or an immediate (type, val)."""

    def __init__(self, type_, addr=None, val=None):
        self.type = type_
        self.addr = addr
        self.val = val

    def _load(self):
        if self.addr is None:
            return self.val
        # like GDB, a value is fetched from the inferior once (it is lazy until first use) and is a snapshot afterwards
        if getattr(self, '_fetched', None) is not None:
            return self._fetched[0]
        self._fetched = (self._load_now(),)
        return self._fetched[0]

    def _load_now(self):
        t = self.type
        if t.ptr or _is_ptr(t.ct):
            return C.c_void_p.from_buffer_copy(_read(self.addr, C.sizeof(C.c_void_p))).value or 0
        if t.code not in (TYPE_CODE_INT, TYPE_CODE_FLT):
            raise error('Cannot convert value to long.')
        return t.ct.from_buffer_copy(_read(self.addr, C.sizeof(t.ct))).value

    def __int__(self):
        v = self._load()
        if isinstance(v, bytes):
            return v[0]
        return int(v)

    def __index__(self):
        return int(self)

    def __float__(self):
        return float(self._load())

    def cast(self, t):
        if t.code == TYPE_CODE_FLT and self.type.code in (TYPE_CODE_INT, TYPE_CODE_FLT):
            return Value(t, val=t.ct(float(self._load())).value)      # rounded to the precision of the C type
        if self.type.code == TYPE_CODE_FLT and t.code == TYPE_CODE_INT:
            return Value(t, val=t.ct(int(float(self._load()))).value)
        if self.type.code in (TYPE_CODE_PTR, TYPE_CODE_INT):
            v = int(self)
            if t.code == TYPE_CODE_INT and t.ct is not C.c_char:
                v = t.ct(v).value      # wraps like the C conversion
            return Value(t, val=v)
        return Value(t, addr=self.addr)

    def _arith(self, other, op):
        """C-like binary arithmetic on scalars: a floating operand makes the result floating (of the wider type)."""
        ot = other.type if isinstance(other, Value) else (Type(C.c_double) if isinstance(other, float) else Type(C.c_int))
        a = self._load() if self.type.code == TYPE_CODE_FLT else int(self)
        b = (other._load() if ot.code == TYPE_CODE_FLT else int(other)) if isinstance(other, Value) else other
        if TYPE_CODE_FLT in (self.type.code, ot.code):
            rt = Type(C.c_double) if C.c_double in (self.type.ct, ot.ct) else Type(C.c_float)
            return Value(rt, val=rt.ct(op(float(a), float(b))).value)
        r = op(int(a), int(b))
        return Value(self.type, val=int(r))

    def __add__(self, n):
        if self.type.code != TYPE_CODE_PTR:
            return self._arith(n, lambda a, b: a + b)
        return Value(self.type, val=int(self) + int(n) * self.type.target().sizeof)

    def __sub__(self, n):
        return self._arith(n, lambda a, b: a - b)

    def __mul__(self, n):
        return self._arith(n, lambda a, b: a * b)

    def __truediv__(self, n):
        import operator
        return self._arith(n, lambda a, b: (a / b) if isinstance(a, float) else int(a / b) if b else operator.truediv(a, b))

    def __neg__(self):
        return self._arith(-1, lambda a, b: a * b)

    def dereference(self):
        if self.type.code != TYPE_CODE_PTR:
            raise error('Attempt to take contents of a non-pointer value.')
        a = int(self)
        if a == 0:
            raise MemoryError('Cannot access memory at address 0x0')
        return Value(self.type.target(), addr=a)

    def string(self, encoding='utf-8', errors='strict', length=-1):
        a = int(self)
        out = b''
        while True:
            b = _read(a + len(out), 1)
            if b == b'\0':
                break
            out += b
            if len(out) > 1 << 16:
                raise error('fake gdb: unterminated string')
        return out.decode(encoding, errors)

    def __getitem__(self, k):
        t = self.type
        if isinstance(k, (int, Value)):
            k = int(k)
            if t.code == TYPE_CODE_PTR:
                tt = t.target()
                return Value(tt, addr=int(self) + k * tt.sizeof)
            if t.code == TYPE_CODE_ARRAY:
                et = Type(t.ct._type_)
                return Value(et, addr=self.addr + k * et.sizeof)
            raise error('Cannot subscript requested type.')
        if t.code == TYPE_CODE_PTR:
            return self.dereference()[k]
        if t.code not in (TYPE_CODE_STRUCT, TYPE_CODE_UNION):
            raise error('Attempt to extract a component of a value that is not a structure.')
        try:
            f = getattr(t.ct, k)
        except AttributeError:
            raise error('There is no member named %s.' % k)
        ft = dict(t.ct._fields_)[k]
        return Value(Type(ft), addr=self.addr + f.offset)

    def __str__(self):
        if self.type.code == TYPE_CODE_PTR:
            return hex(int(self))
        return str(int(self))

    def __repr__(self):
        return '<gdb.Value %s %s>' % (self.type, self)


# ---- inferior state presented to the plugin --------------------------------------

class _Thread:
    def __init__(self, num):
        self.global_num = num
        self.num = num
        self.ptid = (4242, 4242 + num - 1, 0)      # the first thread's LWP id equals the pid
        self.name = 'stub' if num == 1 else None       # GDB: None when neither the user nor the target names the thread


class Frame:
    def __init__(self, name, variables, older=None):
        self._name = name
        self.vars = variables
        self._older = older

    def name(self):
        return self._name

    def function(self):
        return self._name

    def read_var(self, n):
        if n not in self.vars:
            raise ValueError('Variable "%s" not found.' % n)
        return self.vars[n]

    def older(self):
        return self._older


class _State:
    def __init__(self):
        self.reset()

    def reset(self):
        self.frame = None
        self.thread = _Thread(1)
        self.executed = []
        self.written = []
        self.breakpoints = []
        self.commands = {}


_state = _State()


def selected_frame():
    if _state.frame is None:
        raise error('No frame is currently selected.')
    return _state.frame


def selected_thread():
    return _state.thread


def string_to_argv(text):
    """GDB splits a command argument the way a shell does: blanks separate, quotes and backslashes are removed."""
    import shlex
    return shlex.split(text, posix=True)


def execute(command, from_tty=False, to_string=False):
    _state.executed.append(command)
    return '' if to_string else None


def write(text, stream=STDOUT):
    _state.written.append((stream, text))


def flush(stream=STDOUT):
    pass


_FIXED = re.compile(r'^\(double\)\(void\*\)\(\(\(1023LL \+ 44LL\) << 52\) \+ \(1LL << 51\) \+ (-?\d+)\) - \(3LL << 43\)$')


def parse_and_eval(expr):
    """The one expression the plugin evaluates.  Semantics as observed in GDB 13.1:
    integer arithmetic in 64 bits, (void*) keeps the bits, (double) of a pointer is a
    bit reinterpretation (this is what makes libwayland's wl_fixed_to_double trick work)."""
    m = _FIXED.match(expr)
    if not m:
        raise error('fake gdb: unsupported expression %r' % expr)
    bits = (((1023 + 44) << 52) + (1 << 51) + int(m.group(1))) & (2 ** 64 - 1)
    return Value(Type(C.c_double), val=struct.unpack('<d', struct.pack('<Q', bits))[0] - (3 << 43))


def breakpoints():
    return tuple(_state.breakpoints)


class Breakpoint:
    def __init__(self, spec, type=None, wp_class=None, internal=False, temporary=False, qualified=False):
        self.location = spec
        self.internal = internal
        self.enabled = True
        _state.breakpoints.append(self)

    def stop(self):
        return True


class Command:
    def __init__(self, name, command_class=COMMAND_DATA, completer_class=None, prefix=False):
        self._name = name
        _state.commands[name] = self

    def dont_repeat(self):
        pass


def ptr_to(ctobj, ct=None):
    """A Value holding the address of a ctypes object, typed `ct *`."""
    return Value(Type(ct or type(ctobj), 1), val=C.addressof(ctobj))
