"""Setup-time binding of environment models to the real things they model."""
import glob
import os
import subprocess
import sys

from .ref import wlprint

REPO = os.environ.get('VERIF_REPO', '/repo')


def main():
    # 1. printer model (old dialects) reproduces every message line of the real logs
    n = bad = 0
    for f in sorted(glob.glob(os.path.join(REPO, 'resources', 'libwayland_debug_logs', '*.log'))):
        for line in open(f, encoding='utf-8', errors='replace'):
            line = line.rstrip('\n')
            r = wlprint.unprint_old(line)
            if r is None:
                continue
            m, mark = r
            n += 1
            if wlprint.render(m, 'old' if mark == '.' else 'oldc') != line:
                bad += 1
    print('printer model vs real logs: %d message lines, %d not reproduced' % (n, bad))
    if bad:
        sys.exit('printer model disagrees with real logs')
    # 2. format strings of the `mid` dialect are those of the installed libwayland
    lib = '/lib/x86_64-linux-gnu/libwayland-client.so.0'
    if os.path.exists(lib):
        data = open(lib, 'rb').read()
        for s in (b'[%7u.%03u] %s%s%s@%u.%s(', b'new id %s@', b'array[%zu]', b'fd %d', b'%s@%u', b'-%d.%08d'):
            if s not in data:
                sys.exit('installed libwayland lacks format string %r' % s)
        print('printer model vs installed libwayland format strings: ok')
    else:
        print('installed libwayland not found: format-string binding skipped')
    # 2b. drive the installed library itself and compare line by line
    from . import bind_libwayland
    if bind_libwayland.compare() != 0:
        sys.exit('printer model disagrees with the installed libwayland')
    # 3. the `cur` dialect's connection tag is the repository's patch
    p = os.path.join(REPO, 'resources', 'libwayland-patches', '0003-Show-conn_id-in-wl_closure_print.patch')
    if os.path.exists(p):
        t = open(p).read()
        assert 'fprintf(f, "<%d> ", connection->conn_id);' in t and '"{%s} ", queue_name' in t and '%s%s%s#%u.%s(' in t, \
            'libwayland patch does not match the cur dialect'
        print('printer model vs repository libwayland patch: ok')


if __name__ == '__main__':
    main()
