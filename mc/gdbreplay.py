"""Binding the GDB API model (mc/fakegdb/gdb.py) to the installed GDB: the same event
scripts are executed (a) by the real plugin on the fake gdb and (b) by the real plugin
inside the real GDB against /verif/gdbstub/stub.c; the plugin's output lines must be
identical (timestamps masked).  A disagreement is a defect of the *model* (harness
error), never a violation of a property."""
import os
import re
import shutil
import subprocess
import tempfile

from . import sut, explore, outparse
from .explore import HarnessError

STUB_SRC = os.path.join(sut.VERIF, 'gdbstub', 'stub.c')


def script_of(events):
    lines = []
    for e in events:
        if isinstance(e, list) and e[0] == 'destroy':
            lines.append('DESTROY %d' % e[1])
            continue
        m = e
        lines.append('MSG %d %s %s %d %s %d %s %s %d' % (1 if m['sent'] else 0, m['side'][0], m['via'], m['conn'], m['iface'],
                                                        m['id'], m['name'], m['sig'] or '-', len(m['args'])))
        for a in m['args']:
            k = a[0]
            if k == 'int':
                lines.append('ARG i %d' % a[1])
            elif k == 'uint':
                lines.append('ARG u %d' % a[1])
            elif k == 'fixed':
                lines.append('ARG f %d' % a[1])
            elif k == 'fd':
                lines.append('ARG h %d' % a[1])
            elif k == 'str':
                lines.append('ARG s %s' % ('-' if a[1] is None else (a[1].encode().hex() or '=')))
            elif k == 'nil':
                lines.append('ARG o %s - 0' % (a[1] or '-'))
            elif k == 'obj':
                lines.append('ARG o %s %s %d' % (a[1] or '-', a[1] or 'zz_actual', a[2]))
            elif k == 'new':
                lines.append('ARG n %s %d' % (a[1] or '-', a[2]))
            elif k == 'array':
                lines.append('ARG a %d %s' % (len(a[1]), ' '.join(str(v) for v in a[1])))
    return '\n'.join(lines) + '\n'


def mask(line):
    line = re.sub(r'^\s*-?\d+\.\d{4} ', 'T ', sut.strip_sgr(line))
    return re.sub(r' after -?\d+\.\d{4}s', ' after Ns', line)     # GDB mode uses the wall clock


def keep(line):
    c, _ = outparse.classify(sut.strip_sgr(line))
    return c in ('message', 'notice', 'stopped') or line.startswith(('Warning:', 'Error:'))


def run_fake(events):
    """The plugin on the fake gdb: -> masked output lines (both streams, in order of emission)."""
    import gdb
    from . import gdbenv
    env = gdbenv.make_plugin()
    inf = gdbenv.Inferior()
    # both streams share one order of emission in GDB (both are gdb.STDERR)
    from core.output import stream

    class Both(stream.Base):
        def __init__(self):
            self.lines = []

        def override_write(self, s):
            self.lines += s.split('\n')
    both = Both()
    env['output'].out = both
    env['output'].err = both
    for e in events:
        if isinstance(e, list) and e[0] == 'destroy':
            loc = inf.present_destroy(e[1])
        else:
            loc = inf.present(e)
        try:
            env['bps'][loc].stop()
        except Exception as x:        # GDB prints the Python error and carries on
            both.lines.append('PYTHON-ERROR %s' % type(x).__name__)
    return [mask(l) for l in both.lines if keep(l)]


_stub = {}


def build_stub():
    if 'path' not in _stub:
        d = tempfile.mkdtemp(prefix='verif-gdbstub-', dir='/var/tmp')
        exe = os.path.join(d, 'stub')
        r = subprocess.run(['gcc', '-g', '-O0', '-o', exe, STUB_SRC], capture_output=True, text=True)
        if r.returncode != 0:
            shutil.rmtree(d, ignore_errors=True)
            raise HarnessError('cannot build gdbstub: ' + r.stderr[-500:])
        _stub['path'] = exe
        _stub['dir'] = d
    return _stub['path']


def cleanup():
    if 'dir' in _stub:
        shutil.rmtree(_stub['dir'], ignore_errors=True)
        _stub.clear()


def run_real(events):
    """The plugin inside the real GDB against the stub: -> masked output lines."""
    exe = build_stub()
    with tempfile.TemporaryDirectory(prefix='verif-gdbreplay-') as d:
        script = os.path.join(d, 'script.txt')
        with open(script, 'w') as f:
            f.write(script_of(events))
        env = dict(os.environ, PYTHONDONTWRITEBYTECODE='1')
        env.pop('PYTHONHASHSEED', None)
        p = subprocess.run(['/venv/bin/python', os.path.join(sut.REPO, 'main.py'), '-C', '-g', '--batch', '-nx', '-ex', 'r',
                            '--args', exe, script], capture_output=True, text=True, env=env, cwd=d, timeout=600)
        lines = []
        for l in p.stderr.split('\n'):
            if 'Error occurred in Python' in l or l.startswith('Python Exception'):
                m = re.search(r"Python Exception <class '(?:\w+\.)*(\w+)'>", l)
                lines.append('PYTHON-ERROR %s' % (m.group(1) if m else '?'))
            elif keep(l):
                lines.append(mask(l))
        # GDB reports a Python exception with two lines; keep one marker per exception
        out = []
        for l in lines:
            if l.startswith('PYTHON-ERROR') and out and out[-1].startswith('PYTHON-ERROR'):
                continue
            out.append(l)
        return out, p


def compare(events, label):
    fake = run_fake(events)
    real, proc = run_real(events)
    fake2 = []
    for l in fake:
        if l.startswith('PYTHON-ERROR') and fake2 and fake2[-1].startswith('PYTHON-ERROR'):
            continue
        fake2.append(l)
    # exception class names differ between the model and GDB only in the module prefix; compare the marker only
    norm = lambda ls: [('PYTHON-ERROR' if l.startswith('PYTHON-ERROR') else l) for l in ls]     # noqa: E731
    if norm(fake2) != norm(real):
        k = next((i for i, (a, b) in enumerate(zip(norm(fake2), norm(real))) if a != b), min(len(fake2), len(real)))
        raise HarnessError('GDB model disagrees with the real GDB on script %s at output line %d:\n  model: %r\n  gdb  : %r\n'
                           '(model lines %d, gdb lines %d; gdb exit %s, stderr tail %r)'
                           % (label, k, fake2[k:k + 2], real[k:k + 2], len(fake2), len(real), proc.returncode, proc.stderr[-400:]))
    return len(real)


def c09_scripts():
    from .props import c09
    import itertools
    codes = 'iufsonah'
    evs = []
    for L in range(0, 3):
        for sig in itertools.product(codes, repeat=L):
            for w in (c09.WAYS[0], c09.WAYS[2], c09.WAYS[4], c09.WAYS[1]):
                evs.append(c09.mk([c09.REPS[c] for c in sig], w, conn=c09.WAYS.index(w)))
    yield 'signatures<=2', evs
    kinds = [c09.REPS[c] for c in codes] + [['nil', 'zz_o'], ['nil', None], ['obj', None, 7], ['new', None, 8], ['str', None], ['str', '']]
    evs = []
    for alen in range(0, 4):
        for i in range(0, 3):
            for j in range(i + 1, 4):
                for k in kinds:
                    args = [['uint', 1000 + x] for x in range(j + 1)]
                    args[i] = ['array', list(range(7, 7 + alen))]
                    args[j] = k
                    evs.append(c09.mk(args, c09.WAYS[(i + j) % 2 * 2], conn=(i + j) % 2))
    yield 'array_follower', evs
    evs = []
    for kind, vals in c09.LATTICE.items():
        for v in vals:
            if kind == 'str' and v is not None and (len(v) > 100 or '"' in v):
                continue
            a = v if isinstance(v, list) and v and isinstance(v[0], str) else [kind, v]
            evs.append(c09.mk([a, ['uint', 99]], c09.WAYS[2], conn=1))
    yield 'value_lattices', evs


def replay_part(run, pid):
    """Thorough tier: replay scripts in the real GDB and count them as validated traces."""
    if run.violations:
        run.skipped.append('real-GDB replay skipped: the model run already found violations')
        return
    if shutil.which('gdb') is None or shutil.which('gcc') is None:
        run.skipped.append('real-GDB replay skipped: gdb or gcc not installed')
        return
    res = explore.Result()
    try:
        if pid == 'C09':
            scripts = list(c09_scripts())
        elif pid == 'C15':
            from .props import c15
            scripts = list(c15.replay_scripts())
        else:
            scripts = []
        for label, evs in scripts:
            n = compare(evs, label)
            res.evaluations += len(evs)
            res.validated += len(evs)
            res.transitions += n
            res.samples.append({'script': label, 'events': len(evs), 'output_lines_compared': n})
    finally:
        cleanup()
    res.states = res.evaluations
    res.nontrivial = res.evaluations
    res.bound = {'scripts': [s['script'] for s in res.samples]}
    run.add_part('real_gdb_replay', res)


# ---------------------------------------------------------------------------
# C10: halting.  The model assumes that a breakpoint whose stop() returns True halts the
# program and that the plugin's gdb.execute('continue' / 'quit') do what they say.  Here a
# schedule of GDB commands (-ex ...) is played against the stub in the real GDB and against
# the model; the plugin's output (message lines, Stopped-at notices, command output) must agree.

def run_fake_schedule(events, commands, stop):
    import gdb
    from . import gdbenv
    from core.output import stream
    env = gdbenv.make_plugin(stop=stop)
    inf = gdbenv.Inferior()

    class Both(stream.Base):
        def __init__(self):
            self.lines = []

        def override_write(self, s):
            self.lines += s.split('\n')
    both = Both()
    env['output'].out = both
    env['output'].err = both
    cmds = list(commands)
    i = 0
    quit_ = False
    running = True
    while not quit_:
        if running:
            if i >= len(events):
                break                      # the program ran to its end
            loc = inf.present(events[i])
            i += 1
            if env['bps'][loc].stop():
                running = False
            continue
        if not cmds:
            break                          # batch mode: GDB exits, the program is killed
        c = cmds.pop(0)
        if c == 'c':
            running = True
            continue
        x0 = len(gdb._state.executed)
        word = c.split(' ', 1)
        env['commands'][word[0]].invoke(word[1] if len(word) > 1 else '', True)
        did = gdb._state.executed[x0:]
        if 'quit' in did:
            quit_ = True
        elif 'continue' in did:
            running = True
    return [mask(l) for l in both.lines if keep(l) or l.startswith(('Breakpoint matcher', 'Breaking on', 'Output filter', 'Only showing'))]


def run_real_schedule(events, commands, stop):
    exe = build_stub()
    with tempfile.TemporaryDirectory(prefix='verif-gdbreplay-') as d:
        script = os.path.join(d, 'script.txt')
        with open(script, 'w') as f:
            f.write(script_of(events))
        env = dict(os.environ, PYTHONDONTWRITEBYTECODE='1')
        env.pop('PYTHONHASHSEED', None)
        argv = ['/venv/bin/python', os.path.join(sut.REPO, 'main.py'), '-C'] + (['-b', stop] if stop else []) + \
               ['-g', '--batch', '-nx', '-ex', 'r']
        for c in commands:
            argv += ['-ex', c]
        argv += ['--args', exe, script]
        p = subprocess.run(argv, capture_output=True, text=True, env=env, cwd=d, timeout=600)
        lines = [mask(l) for l in p.stderr.split('\n')
                 if keep(l) or l.startswith(('Breakpoint matcher', 'Breaking on', 'Output filter', 'Only showing'))]
        return lines, p


def c10_schedules():
    from . import gdbenv
    from .props import c10
    pre = c10.prelude('1') + c10.prelude('2')
    kinds = [('1', 'commit'), ('1', 'motion'), ('2', 'enter'), ('1', 'name'), ('2', 'commit'), ('1', 'enter'), ('2', 'motion'), ('1', 'commit')]
    msgs = pre + [c10.message_for(c, k) for c, k in kinds]
    evs = [gdbenv.closure_from_print(dict(m, t_us=0), side='client', conn=int(m['conn'])) for m in msgs]
    yield 'bp wl_surface, continue by hand', evs, ['c'] * 12, 'wl_surface'
    yield 'resume through wl commands', evs, ['wl resume', 'wlresume', 'wl breakpoint', 'c', 'wl r', 'c', 'c', 'c', 'c', 'c', 'c'], 'wl_surface'
    yield 'selection and breakpoint changes while halted', evs, ['wl connection B', 'c', 'wl breakpoint ! .motion', 'wl connection all', 'c', 'c',
                                                                   'wl breakpoint !', 'c', 'c', 'c'], 'wl_surface'
    yield 'quit', evs, ['c', 'wl quit', 'c', 'c'], 'wl_surface'
    yield 'no breakpoint', evs, ['c'], None


def replay_c10(run):
    if run.violations:
        run.skipped.append('real-GDB replay skipped: the model run already found violations')
        return
    if shutil.which('gdb') is None or shutil.which('gcc') is None:
        run.skipped.append('real-GDB replay skipped: gdb or gcc not installed')
        return
    res = explore.Result()
    try:
        for label, evs, cmds, stop in c10_schedules():
            fake = run_fake_schedule(evs, cmds, stop)
            real, proc = run_real_schedule(evs, cmds, stop)
            if fake != real:
                k = next((i for i, (a, b) in enumerate(zip(fake, real)) if a != b), min(len(fake), len(real)))
                raise HarnessError('GDB model disagrees with the real GDB on schedule %r at output line %d:\n  model: %r\n  gdb  : %r\n'
                                   '(model %d lines, gdb %d lines)' % (label, k, fake[k:k + 2], real[k:k + 2], len(fake), len(real)))
            res.evaluations += 1
            res.validated += len(evs)
            res.transitions += len(real)
            res.samples.append({'schedule': label, 'commands': cmds, 'output_lines_compared': len(real)})
    finally:
        cleanup()
    res.states = res.evaluations
    res.nontrivial = res.evaluations
    run.add_part('real_gdb_halting', res)
