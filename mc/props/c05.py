"""C05 - a matcher selects exactly the messages its documented meaning says.

PROD engine: every well-formed combination of connection / object / name / argument
atoms (each with a hand-written denotation), top-level comma / `!` lists of
representative patterns, and respellings (blanks at token boundaries, redundant
brackets) is given to the real controller as `list <expr>` on a session that has
loaded the universe log; the selected lines must equal the denotation on the
reference views.  Cross-check: parsed vs simplified matcher through the API."""
import itertools
import traceback

from .. import sut, explore, outparse
from ..explore import Eval
from ..report import Violation
from ..ref import matchsem as ms

_cache = {}


def session():
    """One universe session per worker process (list queries do not change state; C11 checks that)."""
    if 'sess' not in _cache:
        lines, views = ms.build_universe(sut.REPO)
        s = sut.Session()
        shown = []
        for l in lines:
            out, err = s.feed_line(l)
            shown.append([x for x in out if outparse.classify(x)[0] == 'message'])
        _cache['sess'] = (s, shown, views, sut.LOG.take())
    return _cache['sess']


def check_universe():
    """The universe as displayed must agree with the reference views (labels, names, nil types, enum labels)."""
    s, shown, views, logs = session()
    V = []
    case = {'universe': True}
    if logs:
        V.append(Violation('universe.log', case, {'log': logs[:5]}))
    for v, sh in zip(views, shown):
        if len(sh) != 1:
            V.append(Violation('universe.display', case, {'line': v.line, 'observed': sh}))
            continue
        r = outparse.classify(sh[0])[1]
        want_obj = '%s@%d%s' % (v.obj[0], v.obj[1], ms.letters.word(v.obj[2]))
        bad = []
        if outparse.label(r['obj']) != want_obj or r['conn'] != v.conn or r['name'] != v.name or len(r['args']) != len(v.args):
            bad.append(('head', want_obj, sh[0]))
        else:
            for a, e in zip(r['args'], v.args):
                if a['name'] != e['name']:
                    bad.append(('arg name', e['name'], a['name']))
                if e['kind'] == 'int' and a.get('labels') != e.get('labels'):
                    bad.append(('labels', e.get('labels'), a.get('labels')))
                if e['kind'] == 'nil' and a.get('type') != e.get('type'):
                    bad.append(('nil type', e.get('type'), a.get('type')))
                if e['kind'] in ('obj', 'new') and outparse.label(a) != '%s@%d%s' % (e['obj'][0], e['obj'][1], ms.letters.word(e['obj'][2])):
                    bad.append(('object', e['obj'], outparse.label(a)))
        if bad:
            V.append(Violation('universe.view', case, {'line': v.line, 'shown': sh[0], 'mismatch': bad[:3]}))
    return V


def atom_lists(tier):
    if tier == 'quick':
        return ms.CONN_ATOMS[:4], ms.OBJ_ATOMS[:10] + ms.OBJ_ATOMS[13:14] + ms.OBJ_ATOMS[18:], ms.NAME_ATOMS[:8] + ms.NAME_ATOMS[9:10] + ms.NAME_ATOMS[11:], \
            ms.ARG_ATOMS[:12] + ms.ARG_ATOMS[26:29] + ms.ARG_ATOMS[32:]
    return ms.CONN_ATOMS, ms.OBJ_ATOMS, ms.NAME_ATOMS, ms.ARG_ATOMS


def valid_combo(c, o, n, a):
    if n[0] is None and a[0] is None:
        # a connection on its own (`B:`) is a pattern too; `*` / nothing at all are the constants
        return o[0] not in ('', '*') or (o[0] == '' and c[0] not in ('', '*:'))
    if n[2] and a[0] not in (None, '()'):
        return False
    if o[0] == '' and n[0] in (None, '') and a[0] in (None, '()') and c[0] == '':
        return False
    return True


def build_one(ix):
    c, o, n, a = ms.CONN_ATOMS[ix[0]], ms.OBJ_ATOMS[ix[1]], ms.NAME_ATOMS[ix[2]], ms.ARG_ATOMS[ix[3]]
    if n[0] is None and a[0] is None:
        return ms.pattern_text(c, o, n, a), ms.bare(c, o), (c, o, n, a)
    return ms.pattern_text(c, o, n, a), ms.pattern(c, o, n, a), (c, o, n, a)


def build_expr(case):
    """-> (text, denotation)"""
    pos = [build_one(ix) for ix in case['pos']]
    neg = [build_one(ix) for ix in case.get('neg', [])]
    if case.get('respell') == 'brackets':
        pos = [(ms.bracketed(*p[2]), p[1], p[2]) for p in pos]
        neg = [(ms.bracketed(*p[2]), p[1], p[2]) for p in neg]
    text, den = ms.lst([(p[0], p[1]) for p in pos], [(p[0], p[1]) for p in neg])
    r = case.get('respell')
    if r == 'spaced':
        text = ms.spaced(text, None)
    elif isinstance(r, int):
        text = ms.spaced(text, r)
    return text, den


REPRESENTATIVE = [
    (0, 1, 0, 0), (0, 0, 1, 0), (2, 0, 4, 0), (0, 5, 0, 0), (0, 3, 0, 0), (0, 4, 0, 0), (0, 0, 2, 0), (0, 0, 3, 0),
    (0, 1, 1, 0), (0, 0, 4, 2), (0, 0, 4, 7), (0, 0, 4, 6), (1, 1, 5, 0), (0, 2, 2, 0), (0, 9, 0, 0), (0, 0, 7, 0),
    (0, 0, 4, 4), (0, 0, 4, 9), (0, 1, 4, 3), (0, 0, 4, 8), (0, 17, 0, 0), (0, 0, 4, 17), (0, 16, 0, 0), (0, 0, 4, 11),
    (0, 0, 4, 13), (0, 10, 1, 0), (0, 11, 0, 0), (0, 0, 8, 0), (0, 0, 4, 18), (5, 1, 0, 0), (0, 0, 4, 22),
    (0, 0, 4, 25), (0, 12, 0, 0), (0, 0, 10, 0), (0, 0, 4, 20), (0, 0, 4, 23), (0, 15, 0, 0), (0, 0, 4, 14),
    (0, 0, 9, 0), (3, 2, 0, 0),
]


def gen_cases(tier):
    C, O, N, A = atom_lists(tier)
    respells = [None, 'spaced', 0] if tier == 'quick' else [None, 'spaced', 0, 0x5555, 0xAAAA, 'brackets']
    # constants
    yield {'const': '*'}
    yield {'const': '!'}
    for c in C:
        for o in O:
            for n in N:
                for a in A:
                    if not valid_combo(c, o, n, a):
                        continue
                    ix = [ms.CONN_ATOMS.index(c), ms.OBJ_ATOMS.index(o), ms.NAME_ATOMS.index(n), ms.ARG_ATOMS.index(a)]
                    for r in respells:
                        yield {'pos': [ix], 'respell': r}
    reps = REPRESENTATIVE[:14] if tier == 'quick' else REPRESENTATIVE
    reps = [list(x) for x in reps]
    for p in reps:
        yield {'pos': [], 'neg': [p], 'respell': None}
        yield {'pos': [], 'neg': [p], 'respell': 'spaced'}
    for p, q in itertools.product(reps, repeat=2):
        yield {'pos': [p, q], 'respell': None}
        yield {'pos': [p], 'neg': [q], 'respell': None}
        yield {'pos': [p], 'neg': [q], 'respell': 0}
    trip = reps[:8] if tier == 'quick' else reps[:24]
    for p, q, r in itertools.product(trip, repeat=3):
        yield {'pos': [p, q], 'neg': [r], 'respell': None}
        if tier != 'quick':
            yield {'pos': [p], 'neg': [q, r], 'respell': 'spaced'}


def evaluate(case):
    V = []
    try:
        s, shown, views, _ = session()
        if 'const' in case:
            text = case['const']
            den = (lambda m: True) if text == '*' else (lambda m: False)
        else:
            text, den = build_expr(case)
        out, err = s.cmd('list ' + text)
        if err:
            return Eval([Violation('matcher.rejected', case, {'expr': text, 'err': err})], outcome='rejected')
        listed = [l for l in out if outparse.classify(l)[0] == 'message']
        got = set(listed)
        order_ok = listed == [sh[0] for sh in shown if sh and sh[0] in got]
        if not order_ok:
            V.append(Violation('select.order', case, {'expr': text, 'observed': listed[:6]}))
        sel = []
        dontcare = 0
        for v, sh in zip(views, shown):
            want = den(v)
            have = bool(sh) and sh[0] in got
            sel.append(have)
            if want is None:
                dontcare += 1
                continue
            if want != have:
                V.append(Violation('select.extra' if have else 'select.missing', case,
                                   {'expr': text, 'message': sh[0] if sh else v.line, 'expected_selected': want}))
                break
        if not V and case.get('respell') is None and 'const' not in case:
            # API cross-check: the matcher as parsed and as simplified agree with each other and with `list`
            from core import matcher
            m1 = matcher.parse(text)
            allm = [m for c in s.cm.connections() for m in c.messages()]
            allm.sort(key=lambda m: m.timestamp)
            raw = [bool(m1.matches(m)) for m in allm]
            m2 = matcher.parse(text).simplify()
            simp = [bool(m2.matches(m)) for m in allm]
            if raw != simp or (len(allm) == len(sel) and simp != sel):
                V.append(Violation('select.simplify', case, {'expr': text, 'parsed': raw, 'simplified': simp, 'listed': sel}))
        n_sel = sum(sel)
        return Eval(V, outcome=[n_sel, hash(tuple(sel)) & 0xffff], nontrivial=0 < n_sel < len(sel), transitions=len(views))
    except Exception:
        return Eval([sut.exc_violation(case)])


def eval_incarnations(case):
    """`id+letters` atoms past the alphabet: one id reused n times; every label of every incarnation, used as an object
    atom (`3ab`, `@3ab`, `#3ab`, `3ab.done`), selects the lines of that incarnation and no other."""
    from . import histcheck as hc
    from ..ref import objtable as ot
    V = []
    try:
        variant = hc.VARIANTS['client']
        hist = hc.deep_chain(variant, case['reuses'], 1)
        lines, exps, ref = hc.render_history(hist, variant)
        s = sut.Session()
        shown = []
        for l in lines:
            o, _ = s.feed_line(l)
            shown += [x for x in o if outparse.classify(x)[0] == 'message']
        sets = {}
        for i, e in enumerate(exps):
            labs = {e['target']} | {lab for k, lab in e['args'] if k in ('obj', 'new')} | ({e['destroyed'][0]} if e['destroyed'] else set())
            for lab in labs:
                sets.setdefault(lab, set()).add(i)
        for lab, want in sorted(sets.items()):
            short = lab.split('@', 1)[1]
            if not short.startswith('3'):
                continue
            for spelling in (short, '@' + short, '#' + short):
                o, e = s.cmd('list ' + spelling)
                got = [x for x in o if outparse.classify(x)[0] == 'message']
                if got != [shown[i] for i in sorted(want)] or e:
                    V.append(Violation('select.incarnation_letters', case, {'matcher': spelling, 'expected': [shown[i] for i in sorted(want)],
                                                                            'observed': got[:6], 'err': e}))
                    break
            if len(V) >= 3:
                break
    except Exception:
        V.append(sut.exc_violation(case))
    return Eval(V, outcome=len(V), nontrivial=True, transitions=case['reuses'] * 3)


def run(run, tier, seed):
    sut.bind()
    sut.ensure_protocols()
    n_reuse = 60 if tier == 'quick' else 720
    res0 = explore.prod(lambda: iter([{'reuses': n_reuse}]), eval_incarnations, workers=1, bound={'reuses_of_one_id': n_reuse})
    run.add_part('incarnation_letters', res0)
    for v in check_universe():
        run.violations.setdefault(v.key(), v)
    res = explore.prod(lambda: gen_cases(tier), evaluate, seed=seed,
                       bound={'atoms': [len(x) for x in atom_lists(tier)], 'universe_messages': len(ms.UNIVERSE)})
    run.add_part('expressions', res)
    run.rule = ('every well-formed combination of connection x object x name x argument atoms, comma/! lists of '
                'representative patterns, and respellings (blanks at every/no/alternating token boundaries, redundant '
                'brackets), each evaluated on a universe of %d resolved messages; non-trivial = the selection is neither '
                'empty nor everything' % len(ms.UNIVERSE))
    run.bound = res.bound
    run.assumptions = ['denotations are three-valued; cases the documentation does not decide (bare type vs typed nil, '
                       'pseudo-messages new/destroyed under a wildcard name, fd / object id as integer value) are not asserted']


def replay(case):
    sut.bind()
    sut.ensure_protocols()
    if case.get('universe'):
        return check_universe()
    if 'reuses' in case:
        return eval_incarnations(case).viols
    return evaluate(case).viols
