"""C12 - filter / breakpoint commands accumulate alternatives and exclusions.

BFS (pure depth, all command sequences to the bound, from three initial matchers):
the same command sequence is given to `filter` and to `breakpoint` on a fresh real
controller, then the universe log is fed; the live view (filter) and the `Stopped
at` notices (breakpoint) must select exactly {m | some accumulated alternative(m)
and no accumulated exclusion(m)} with hand denotations, three-valued."""
import itertools
import traceback

from .. import sut, explore, outparse
from ..explore import Eval
from ..report import Violation
from ..ref import matchsem as ms

C0 = ms.CONN_ATOMS[0]
O0 = ms.OBJ_ATOMS[0]
N0 = ms.NAME_ATOMS[0]
A0 = ms.ARG_ATOMS[0]


def _name(text, pred):
    return (text, pred, False)


def _obj(text, pred):
    return (text, pred)


D = {
    'wl_pointer': ms.bare(C0, _obj('wl_pointer', ms.o_type('wl_pointer'))),
    'wl_surface': ms.bare(C0, _obj('wl_surface', ms.o_type('wl_surface'))),
    'xdg_*': ms.bare(C0, _obj('xdg_*', ms.o_type('xdg_*'))),
    '.commit': ms.pattern(C0, O0, _name('commit', lambda n: n == 'commit'), A0),
    '.motion': ms.pattern(C0, O0, _name('motion', lambda n: n == 'motion'), A0),
    '.frame': ms.pattern(C0, O0, _name('frame', lambda n: n == 'frame'), A0),
    '.configure': ms.pattern(C0, O0, _name('configure', lambda n: n == 'configure'), A0),
    'B:': lambda m: None if m.orphan else m.conn == 'B',
    'B: .commit': ms.pattern(('B:', lambda c: c == 'B'), O0, _name('commit', lambda n: n == 'commit'), A0),
    'A: .commit': ms.pattern(('A:', lambda c: c == 'A'), O0, _name('commit', lambda n: n == 'commit'), A0),
    'B: wl_surface': ms.bare(('B:', lambda c: c == 'B'), _obj('wl_surface', ms.o_type('wl_surface'))),
    '(x=0)': ms.pattern(C0, O0, N0, ('(x=0)', ms.argl([ms.a_and(ms.a_named('x'), ms.a_int(0))]))),
    '[wl_surface, wl_seat].[commit, capabilities]': ms.pattern(
        C0, _obj('', lambda o: o[0] in ('wl_surface', 'wl_seat')), _name('', lambda n: n in ('commit', 'capabilities')), A0),
    '*': lambda m: True,
    '[wl_pointer ! 6]': ms.bare(C0, _obj('[wl_pointer ! 6]', lambda o: o[0] == 'wl_pointer' and o[1] != 6)),
    'wl_*_surface': ms.bare(C0, _obj('wl_*_surface', ms.o_type('wl_*_surface'))),
    'wl_surface.destroyed': ms.pattern(C0, _obj('wl_surface', ms.o_type('wl_surface')), ('destroyed', lambda n: n == 'destroyed', True), A0),
    '(wl_seat)': ms.pattern(C0, O0, N0, ('(wl_seat)', ms.argl([ms.a_word('wl_seat')]))),
    '("wl_seat")': ms.pattern(C0, O0, N0, ('("wl_seat")', ms.argl([ms.a_str('wl_seat')]))),
}

# (command text, alternatives, exclusions) ; strings = special
COMMANDS = [
    ('wl_pointer', ['wl_pointer'], []),
    ('! .motion', [], ['.motion']),
    ('*', ['*'], []),
    ('!', 'NONE', None),
    ('[', 'BAD', None),
    ('wl_pointer, .commit', ['wl_pointer', '.commit'], []),
    ('xdg_* ! .configure', ['xdg_*'], ['.configure']),
    ('', 'SHOW', None),
    ('! wl_surface, .frame', [], ['wl_surface', '.frame']),
    ('a:b:c', 'BAD', None),
    ('B:', ['B:'], []),
    ('[wl_surface, wl_seat].[commit, capabilities]', ['[wl_surface, wl_seat].[commit, capabilities]'], []),
    ('x(y)z', 'BAD', None),
    ('(x=0)', ['(x=0)'], []),
    ('(wl_seat)', ['(wl_seat)'], []),
    ('("wl_seat")', ['("wl_seat")'], []),
    ('3é', 'BAD', None),
    ('! ("wl_seat")', [], ['("wl_seat")']),
    # an exclusion scoped inside one bracketed alternative is not an exclusion of the whole matcher
    ('[wl_pointer ! 6]', ['[wl_pointer ! 6]'], []),
    ('A: .commit', ['A: .commit'], []),
    ('B: .commit', ['B: .commit'], []),
]
INITIAL = ['*', '!', 'wl_pointer']


class RefAcc:
    """constant-all | constant-none | (alternatives P, exclusions N, forgotten F)"""

    def __init__(self, init):
        self.const = None
        self.P, self.N, self.F = [], [], []
        if init == '*':
            self.const = True
        elif init == '!':
            self.const = False
        elif init.startswith('! '):
            self.P, self.N = ['*'], [init[2:]]
        else:
            self.P = [init]

    def step(self, cmd):
        _, pos, neg = cmd
        if pos in ('BAD', 'SHOW'):
            return
        if pos == 'NONE':
            self.const, self.P, self.N, self.F = False, [], [], []
            return
        if self.const is not None:
            # a matcher given while the current one is * or ! replaces it
            self.const = None
            self.P = list(pos) if pos else ['*']
            self.N = list(neg)
            self.F = []
        else:
            if '*' in pos:
                # a * alternative: no restriction; whether older alternatives survive it is not specified
                self.F += [p for p in self.P if p != '*']
                self.P = ['*']
            elif pos:
                self.P = list(pos) + [p for p in self.P if p != '*']
            self.N = list(neg) + self.N
        if self.P == ['*'] and not self.N:
            self.const, self.P, self.F = True, [], []

    def selects(self, m):
        if self.const is not None:
            return self.const
        r = ms.and3(ms.any3(D[p](m) for p in self.P), ms.not3(ms.any3(D[n](m) for n in self.N)))
        if r is False and self.F and ms.not3(ms.any3(D[n](m) for n in self.N)) is not False:
            if ms.any3(D[f](m) for f in self.F) is not False:
                return None
        return r

    def key(self):
        return [self.const, self.P, self.N, self.F]


_cache = {}


def universe():
    if 'u' not in _cache:
        _cache['u'] = ms.build_universe(sut.REPO)
    return _cache['u']


def printed_matcher(lines, prefix):
    for l in lines:
        if l.startswith(prefix):
            return l[len(prefix):]
    return None


def evaluate_recorded(case):
    """The messages are recorded first; the commands follow (as at the prompt of file mode, or in GDB while the program
    is halted); `list` without a matcher is asked after the first command and after the last one only."""
    V = []
    try:
        lines, views = universe()
        s = sut.Session()
        for l in lines:
            s.feed_line(l)
        canon = [x for x in s.cmd('list *')[0] if outparse.classify(x)[0] == 'message']
        reff = RefAcc('*')
        seq = [COMMANDS[i] for i in case['seq']]
        for n, cmd in enumerate(seq):
            reff.step(cmd)
            s.cmd('filter ' + cmd[0])
            if n == 0 or n == len(seq) - 1:
                listed = {x for x in s.cmd('list')[0] if outparse.classify(x)[0] == 'message'}
                ref_now = reff if n == len(seq) - 1 else None
                if ref_now is None:
                    first = RefAcc('*')
                    first.step(seq[0])
                    ref_now = first
                for v, line in zip(views, canon):
                    want = ref_now.selects(v)
                    if want is not None and want != (line in listed):
                        V.append(Violation('accumulate.list_of_recorded', case, {'after_command': n, 'message': v.line, 'expected_listed': want,
                                                                                'reference': ref_now.key()}))
                        break
            if V:
                break
    except Exception:
        return Eval([sut.exc_violation(case)])
    return Eval(V, outcome=[reff.key(), 'recorded'], nontrivial=len(case['seq']) >= 3, transitions=len(case['seq']) + 2)


def evaluate(case):
    if case.get('recorded_first'):
        return evaluate_recorded(case)
    V = []
    try:
        lines, views = universe()
        init = case['init']
        seq = [COMMANDS[i] for i in case['seq']]
        s = sut.Session(filt=None if init == '*' else init, stop='*' if init == '*' else init)
        reff = RefAcc(init)
        refb = RefAcc(init)
        # `rotate`: the breakpoint gets the same commands in rotated order, so filter and breakpoint differ
        bseq = seq[1:] + seq[:1] if case.get('rotate') else seq
        prev_f = outparse.queried_matcher(s.cmd('filter')[0])
        prev_b = outparse.queried_matcher(s.cmd('breakpoint')[0])
        for cmd, bcmd in zip(seq, bseq):
            text = cmd[0]
            before = reff.key()
            reff.step(cmd)
            refb.step(bcmd)
            of, ef = s.cmd('filter ' + text)
            ob, eb = s.cmd('breakpoint ' + bcmd[0])
            step = {'command': text, 'breakpoint_command': bcmd[0]}
            if case.get('rotate'):
                # only the selections are compared in this mode (confirmation lines are judged in the plain mode)
                continue
            # every command answers with at least one line; the current matchers are read back with the no-argument forms
            if not (of or ef) or not (ob or eb):
                V.append(Violation('accumulate.confirmation', case, dict(step, filter_out=of, breakpoint_out=ob)))
                break
            cur_f = outparse.queried_matcher(s.cmd('filter')[0])
            cur_b = outparse.queried_matcher(s.cmd('breakpoint')[0])
            if cur_f is None or cur_b is None:
                V.append(Violation('accumulate.confirmation', case, dict(step, filter_out=of, breakpoint_out=ob)))
                break
            if cmd[1] == 'BAD':
                if not ef or not eb:      # reported as an error: a line on the error stream, whatever its wording
                    V.append(Violation('accumulate.malformed_not_reported', case, dict(step, err=[ef, eb])))
                if cur_f != prev_f or cur_b != prev_b:
                    V.append(Violation('accumulate.malformed_changed', case, dict(step, before=[prev_f, prev_b], after=[cur_f, cur_b])))
            else:
                if ef or eb:
                    V.append(Violation('accumulate.rejected', case, dict(step, err=[ef, eb])))
            if cmd[1] == 'SHOW' and (cur_f != prev_f or cur_b != prev_b):
                V.append(Violation('accumulate.show_changed', case, dict(step, before=[prev_f, prev_b], after=[cur_f, cur_b])))
            for cur, what in ((cur_f, 'filter'), (cur_b, 'breakpoint')):
                is_const = cur in ('*', '!')
                if is_const != (reff.const is not None) or (is_const and (cur == '*') != reff.const):
                    V.append(Violation('accumulate.constant', case, dict(step, which=what, printed=cur, reference=reff.key())))
            prev_f, prev_b = cur_f, cur_b
        if V:
            return Eval(V, outcome='early')
        # evaluate against all messages
        sel_f, sel_b = [], []
        for l in lines:
            out, err = s.feed_line(l)
            cls = [outparse.classify(x)[0] for x in out]
            sel_f.append('message' in cls)
            sel_b.append('stopped' in cls)
        o, _ = s.cmd('list')
        listed = {x for x in o if outparse.classify(x)[0] == 'message'}
        for i, v in enumerate(views):
            want = reff.selects(v)
            if want is None:
                continue
            if sel_f[i] != want:
                V.append(Violation('accumulate.filter', case, {'message': v.line, 'expected_shown': want, 'reference': reff.key()}))
                break
        for i, v in enumerate(views):
            want = refb.selects(v)
            if want is not None and sel_b[i] != want:
                V.append(Violation('accumulate.breakpoint', case, {'message': v.line, 'expected_stop': want, 'reference': refb.key()}))
                break
        if len(listed) != sum(sel_f):
            V.append(Violation('accumulate.list_differs_from_live', case, {'listed': len(listed), 'live': sum(sel_f)}))
        # an explicit `list X` is judged on X alone, whatever has been accumulated meanwhile
        o, _ = s.cmd('list *')
        canon = [x for x in o if outparse.classify(x)[0] == 'message']
        if len(canon) == len(views) and not V:
            for cmd in seq[-2:]:
                if isinstance(cmd[1], list) and (cmd[1] or cmd[2]):
                    o, e = s.cmd('list ' + cmd[0])
                    got = {x for x in o if outparse.classify(x)[0] == 'message'}
                    solo = RefAcc('*')
                    solo.step(cmd)
                    for v, line in zip(views, canon):
                        want = solo.selects(v)
                        if want is not None and want != (line in got):
                            V.append(Violation('accumulate.list_query', case, {'query': cmd[0], 'message': v.line, 'expected_listed': want}))
                            break
        n = sum(sel_f)
        return Eval(V, outcome=[reff.key()], nontrivial=0 < n < len(views) and len(case['seq']) >= 2,
                    transitions=len(case['seq']) + len(lines))
    except Exception:
        return Eval([sut.exc_violation(case)])


def gen_cases(tier):
    L = 3 if tier == 'quick' else 4
    for init in INITIAL:
        for n in range(0, L + 1):
            for seq in itertools.product(range(len(COMMANDS)), repeat=n):
                yield {'init': init, 'seq': list(seq)}
    for n in range(2, (2 if tier == 'quick' else L) + 1):
        for seq in itertools.product(range(len(COMMANDS)), repeat=n):
            if len(set(seq)) > 1:
                yield {'init': '*', 'seq': list(seq), 'rotate': True}
    well = [i for i, c in enumerate(COMMANDS) if isinstance(c[1], list)]
    for n in (1, 3):
        for seq in itertools.product(well, repeat=n):
            yield {'init': '*', 'seq': list(seq), 'recorded_first': True}


def run(run, tier, seed):
    sut.bind()
    sut.ensure_protocols()
    res = explore.prod(lambda: gen_cases(tier), evaluate, seed=seed,
                       bound={'sequence_length': 3 if tier == 'quick' else 4, 'commands': [c[0] for c in COMMANDS],
                              'initial': INITIAL})
    run.add_part('command_sequences', res)
    run.rule = ('all sequences of filter/breakpoint commands up to the bound over %d commands (alternatives, exclusions, '
                'both, *, !, bracketed, malformed, blank) from 3 initial matchers, evaluated against the %d-message '
                'universe; every prefix is itself an enumerated sequence, so the state after every step is checked; '
                'non-trivial = at least two commands and a selection that is neither empty nor everything'
                % (len(COMMANDS), len(ms.UNIVERSE)))
    run.bound = res.bound
    run.assumptions = ['whether alternatives older than a `*` survive it is not specified: messages only they select are not asserted']


def replay(case):
    sut.bind()
    sut.ensure_protocols()
    return evaluate(case).viols
