"""C07 - argument names, nil types and enum labels come from the protocol descriptions.

PROD engine, exhaustive in both tiers over every shipped interface x message x
argument position:
 (a) the look-up API after load_all() exactly as main() calls it,
 (b) output lines: per interface a generic session get_registry -> bind -> one line
     per message with arguments synthesised from the declared types,
 (c) version precedence: synthetic descriptions of one interface at versions 1..n
     loaded in every permutation (and with duplicated versions),
 (d) enum labels on array elements (GDB-mode arrays).
Oracle: independent XML reader (ref/protoxml.py); for interfaces whose highest version
is described by several differing files the whole interface must be consistent with
one of the tied candidates."""
import itertools
import os
import tempfile

from .. import sut, explore, outparse
from ..explore import Eval
from ..report import Violation
from ..ref import protoxml, wlprint

T = 3000000000


def top():
    return protoxml.shipped(sut.REPO)


def enum_values(enums, tier):
    vals = {0, -1, 2 ** 31, 1, 2, 3}
    for en in enums:
        if not en:
            continue
        bf, entries = en
        ev = [x for _, x in entries]
        vals.update(ev)
        if ev:
            vals.add(max(ev) + 1)
        if bf:
            k = 2 if tier == 'quick' else len(ev)
            if len(ev) <= 13:
                for r in range(2, k + 1):
                    for comb in itertools.combinations(ev, r):
                        v = 0
                        for c in comb:
                            v |= c
                        vals.add(v)
            else:
                for a, b in itertools.combinations(ev, 2):
                    vals.add(a | b)
    return sorted(vals)


# ---- (a) API ----------------------------------------------------------------------

def eval_api(case):
    from core.wl import protocol
    iface = case['interface']
    tier = case['tier']
    tp = top()
    cands = tp[iface]
    n = 0
    failures = []
    for d in cands:
        bad = None
        for mname, args in d.messages.items():
            if (iface, mname) == ('wl_registry', 'bind'):
                continue
            for idx, (an, at, ai, ae) in enumerate(args):
                n += 1
                try:
                    got_name = protocol.get_arg_name(iface, mname, idx)
                    got_if = protocol.look_up_interface(iface, mname, idx)
                except RuntimeError as e:
                    bad = bad or {'message': mname, 'arg': idx, 'error': str(e)}
                    continue
                if got_name != an:
                    bad = bad or {'message': mname, 'arg': idx, 'what': 'name', 'expected': an, 'observed': got_name}
                if got_if != ai:
                    bad = bad or {'message': mname, 'arg': idx, 'what': 'interface', 'expected': ai, 'observed': got_if}
                e = protoxml.HAND.get((iface, mname, an), ae)
                if at in ('int', 'uint', 'array') or e:
                    ens = protoxml.enum_candidates(tp, iface, e) if e else [None]
                    for v in enum_values(ens, tier):
                        n += 1
                        got = protocol.look_up_enum(iface, mname, idx, v)
                        exp_any = [protoxml.labels(en, v) for en in ens] if e else [[]]
                        if got not in exp_any:
                            bad = bad or {'message': mname, 'arg': idx, 'what': 'enum labels', 'value': v,
                                          'expected_one_of': exp_any, 'observed': got}
        failures.append(bad)
    V = []
    if all(f is not None for f in failures):
        V.append(Violation('protocol.api', {'interface': iface, 'tier': tier},
                           {'tied_candidates': [d.path.replace(sut.REPO, '') for d in cands], 'first_mismatch_per_candidate': failures}))
    return Eval(V, outcome=[iface, len(cands)], nontrivial=any(a[3] for d in cands for args in d.messages.values() for a in args),
                transitions=n)


# ---- (a') enums sharing a bare name in different interfaces, looked up one after the other ----

def gen_same_name_pairs(tier):
    tp = top()
    by_name = {}
    for iface, cands in sorted(tp.items()):
        d = cands[0]
        for mname, args in d.messages.items():
            if (iface, mname) == ('wl_registry', 'bind'):
                continue
            for idx, (an, at, ai, ae) in enumerate(args):
                e = protoxml.HAND.get((iface, mname, an), ae)
                if e and len(cands) == 1:
                    by_name.setdefault(e.split('.')[-1], []).append((iface, mname, idx, e))
    for name, uses in sorted(by_name.items()):
        ifaces = sorted({u[0] for u in uses})
        if len(ifaces) < 2:
            continue
        reps = [next(u for u in uses if u[0] == i) for i in ifaces][:6]
        for a in reps:
            for b in reps:
                if a[0] != b[0]:
                    yield {'first': list(a), 'then': list(b)}


def eval_same_name_pair(case):
    """look up every entry value through the first use, then through the second: each answer is that interface's own"""
    from core.wl import protocol
    import importlib
    tp = top()
    V = []
    n = 0
    a, b = case['first'], case['then']
    ea = protoxml.enum_candidates(tp, a[0], a[3])
    eb = protoxml.enum_candidates(tp, b[0], b[3])
    vals = enum_values(ea + eb, 'quick')[:40]
    for v in vals:
        protocol.look_up_enum(a[0], a[1], a[2], v)
        got = protocol.look_up_enum(b[0], b[1], b[2], v)
        n += 2
        if got not in [protoxml.labels(en, v) for en in eb]:
            V.append(Violation('protocol.enum_of_another_interface', case, {'value': v, 'observed': got,
                                                                            'expected_one_of': [protoxml.labels(en, v) for en in eb]}))
            break
    return Eval(V, outcome=len(V), nontrivial=True, transitions=n)


# ---- (b) output lines -------------------------------------------------------------

_nullable = {}


def nullable_strings():
    """(interface, message, argument) of every string argument a description marks allow-null: libwayland prints `nil`
    for such an argument when the program passes NULL."""
    if not _nullable:
        import xml.etree.ElementTree as ET
        for f in protoxml.discover(os.path.join(sut.REPO, 'resources', 'protocols')):
            try:
                root = ET.parse(f).getroot()
            except ET.ParseError:
                continue
            for i in root.findall('interface'):
                for m in i:
                    if m.tag in ('request', 'event'):
                        for a in m.findall('arg'):
                            if a.get('type') == 'string' and a.get('allow-null') == 'true':
                                _nullable[(i.get('name'), m.get('name'), a.get('name'))] = True
        _nullable[None] = True
    return _nullable


def synth_lines(iface, d, tier):
    """-> list of (line, message name, expected args [(name, kind, extra)])"""
    tp = top()
    out = []
    nid = [20]
    t = [T]

    def M(sent, ifc, oid, name, args):
        t[0] += 100
        return wlprint.render({'t_us': t[0], 'sent': sent, 'iface': ifc, 'id': oid, 'name': name, 'args': args,
                               'queue': None, 'conn': None}, 'mid')
    pre = [M(True, 'wl_display', 1, 'get_registry', [['new', 'wl_registry', 2]])]
    target = 3
    if iface == 'wl_display':
        target = 1
    elif iface == 'wl_registry':
        target = 2
    else:
        pre.append(M(True, 'wl_registry', 2, 'bind', [['int', 1], ['str', iface], ['int', d.version], ['new', None, 3]]))
    skipped = 0
    last_new = None
    variants = (0, 1) if tier == 'quick' else (0, 1, 2)
    for mname, args in d.messages.items():
        if (iface, mname) == ('wl_registry', 'bind'):
            continue
        if any(at == 'new_id' and ai is None for (an, at, ai, ae) in args):
            skipped += 1     # untyped new id: libwayland prints extra arguments, outside the statement
            continue
        for variant in variants:
            sargs, exp = [], []
            for (an, at, ai, ae) in args:
                e = protoxml.HAND.get((iface, mname, an), ae)
                if at in ('int', 'uint'):
                    v = 1
                    ens = protoxml.enum_candidates(tp, iface, e) if e else [None]
                    if e and ens[0]:
                        entries = ens[0][1]
                        v = [entries[0][1], 0, entries[-1][1] | entries[0][1]][variant] if entries else variant
                    if (iface, mname) == ('wl_display', 'delete_id'):
                        v = last_new
                    sargs.append(['int', v])
                    exp.append((an, 'int', [protoxml.labels(en, v) for en in ens] if e else [None]))
                elif at == 'fixed':
                    sargs.append(['fixed', 384])
                    exp.append((an, 'float', None))
                elif at == 'string' and variant == 1 and (iface, mname, an) in nullable_strings():
                    sargs.append(['nil'])       # a NULL string: shown as a nil without an interface
                    exp.append((an, 'nil', None))
                elif at == 'string':
                    sargs.append(['str', 's'])
                    exp.append((an, 'str', None))
                elif at == 'object':
                    sargs.append(['nil'])
                    exp.append((an, 'nil', ai))
                elif at == 'new_id':
                    nid[0] += 1
                    last_new = nid[0]
                    sargs.append(['new', ai, nid[0]])
                    exp.append((an, 'new', ai))
                elif at == 'array':
                    sargs.append(['array', 4])
                    exp.append((an, 'array', None))
                elif at == 'fd':
                    sargs.append(['fd', 5])
                    exp.append((an, 'fd', None))
                else:
                    raise ValueError(at)
            if (iface, mname) == ('wl_display', 'delete_id') and last_new is None:
                break
            # requests are sent, events received (client-side log); messages is name-keyed so direction is not recoverable
            out.append((M(True, iface, target, mname, sargs), mname, exp))
            if not any(e for (_, _, _, e) in args) and not any(protoxml.HAND.get((iface, mname, an)) for (an, _, _, _) in args) and \
                    not any((iface, mname, an) in nullable_strings() for (an, _, _, _) in args):
                break      # no enum argument, no nullable string: one variant is enough
            if (iface, mname) == ('wl_display', 'delete_id'):
                break
    return pre, out, skipped


def eval_display(case):
    iface = case['interface']
    tier = case['tier']
    cands = top()[iface]
    failures = []
    n = 0
    for d in cands:
        bad = None
        try:
            pre, lines, skipped = synth_lines(iface, d, tier)
            s = sut.Session()
            for l in pre:
                s.feed_line(l)
            sut.LOG.take()
            for line, mname, exp in lines:
                out, err = s.feed_line(line)
                n += 1
                recs = [outparse.classify(x) for x in out]
                msgs = [r for c, r in recs if c == 'message']
                if len(msgs) != 1 or err:
                    bad = bad or {'line': line, 'what': 'not shown as one message', 'out': out, 'err': err}
                    continue
                r = msgs[0]
                if r['name'] != mname or len(r['args']) != len(exp):
                    bad = bad or {'line': line, 'what': 'shape', 'shown': r['text']}
                    continue
                for i, (a, (an, kind, extra)) in enumerate(zip(r['args'], exp)):
                    if a['name'] != an:
                        bad = bad or {'line': line, 'arg': i, 'what': 'name', 'expected': an, 'observed': a['name'], 'shown': r['text']}
                    if a['kind'] != kind:
                        bad = bad or {'line': line, 'arg': i, 'what': 'kind', 'expected': kind, 'observed': a['kind'], 'shown': r['text']}
                    elif kind == 'nil' and a['type'] != extra:
                        bad = bad or {'line': line, 'arg': i, 'what': 'nil type', 'expected': extra, 'observed': a['type'], 'shown': r['text']}
                    elif kind == 'int':
                        got = a.get('labels')
                        if got not in [(x or None) for x in extra]:
                            bad = bad or {'line': line, 'arg': i, 'what': 'enum labels', 'expected_one_of': extra, 'observed': got, 'shown': r['text']}
                    elif kind == 'new' and (a['type'] != extra or not a['resolved']):
                        bad = bad or {'line': line, 'arg': i, 'what': 'new id type', 'expected': extra, 'shown': r['text']}
        except Exception:
            v = sut.exc_violation({'interface': iface, 'tier': tier, 'part': 'display'})
            return Eval([v])
        failures.append(bad)
    V = []
    if all(f is not None for f in failures):
        V.append(Violation('protocol.display', {'interface': iface, 'tier': tier, 'part': 'display'},
                           {'first_mismatch_per_candidate': failures}))
    return Eval(V, outcome=[iface, n], nontrivial=True, transitions=n)


def eval_unknown(case):
    """Messages on interfaces the tool has no description for are shown undecorated, not dropped."""
    V = []
    s = sut.Session()
    lines = ['[3000000.000]  -> wl_display@1.get_registry(new id wl_registry@2)',
             '[3000000.100]  -> wl_registry@2.bind(1, "zz_unknown", 1, new id [unknown]@3)',
             '[3000000.200]  -> zz_unknown@3.frob(7, nil, "s", 1.50000000, fd 3, array[2], new id zz_other@4)',
             '[3000000.300] zz_other@4.event(zz_unknown@3, 4294967295)']
    for l in lines[:2]:
        s.feed_line(l)
    for l, want in ((lines[2], ['int', 'nil', 'str', 'float', 'fd', 'array', 'new']), (lines[3], ['obj', 'int'])):
        out, err = s.feed_line(l)
        msgs = [r for c, r in map(outparse.classify, out) if c == 'message']
        ok = len(msgs) == 1 and [a['kind'] for a in msgs[0]['args']] == want and \
            all(a['name'] is None and not a.get('labels') for a in msgs[0]['args']) and \
            all(a.get('type') is None for a in msgs[0]['args'] if a['kind'] == 'nil') and not err
        if not ok:
            V.append(Violation('protocol.unknown_interface', {'unknown': True, 'line': l}, {'out': out, 'err': err}))
    return Eval(V, nontrivial=True, transitions=4)


# ---- (c) version precedence -------------------------------------------------------

def synth_xml(version, variant=''):
    return '''<?xml version="1.0" encoding="UTF-8"?>
<protocol name="zz_proto_v%(v)d%(x)s">
  <interface name="zz_iface" version="%(v)d">
    <request name="poke">
      <arg name="first_v%(v)d%(x)s" type="uint" enum="mode"/>
      <arg name="second_v%(v)d%(x)s" type="object" interface="zz_target_v%(v)d%(x)s" allow-null="true"/>
      <arg name="third" type="uint" enum="zz_only_v%(v)d.kind"/>
      <arg name="fourth" type="uint" enum="zz_holder.mode"/>
      <arg name="fifth" type="uint" enum="zz_enum_only.level"/>
    </request>
    <enum name="kind">
      <entry name="own_kind_must_not_be_used" value="1"/>
    </enum>
    <enum name="mode">
      <entry name="m%(v)d%(x)s" value="1"/>
      <entry name="shifted%(v)d%(x)s" value="1 &lt;&lt; %(v)d"/>
      <entry name="hex%(v)d%(x)s" value="0x%(v)d0"/>
    </enum>
  </interface>
  <!-- described in every file too, but the file with the HIGHEST zz_iface has the LOWEST zz_holder: a qualified
       reference goes to the highest version of the interface it names, wherever that was described -->
  <interface name="zz_holder" version="%(hv)d">
    <request name="hold"><arg name="held%(hv)d" type="int"/></request>
    <enum name="mode">
      <entry name="holder_mode_of_version_%(hv)d" value="2"/>
    </enum>
  </interface>
  <!-- an interface without requests or events, described in several versions -->
  <interface name="zz_enum_only" version="%(v)d">
    <enum name="level">
      <entry name="level_of_version_%(v)d" value="3"/>
    </enum>
  </interface>
  <interface name="zz_only_v%(v)d" version="1">
    <enum name="kind">
      <entry name="theirs%(v)d" value="1"/>
    </enum>
    <event name="ping"><arg name="p%(v)d" type="int"/></event>
  </interface>
</protocol>
''' % {'v': version, 'x': variant, 'hv': 10 - version}


def eval_precedence(case):
    """case: {'order': [(version, variant)...]}"""
    from core.wl import protocol
    from core.output import Output, stream
    V = []
    order = case['order']
    saved = dict(protocol.interfaces)
    try:
        protocol.dump_all()
        o = Output(False, True, stream.String(), stream.String())
        with tempfile.TemporaryDirectory(prefix='verif-c07-') as d:
            for k, (v, x) in enumerate(order):
                p = os.path.join(d, 'f%d.xml' % k)
                with open(p, 'w') as f:
                    f.write(synth_xml(v, x))
                protocol.load(p, o)
        hv = max(v for v, _ in order)
        winners = [x for v, x in order if v == hv]
        names = [protocol.get_arg_name('zz_iface', 'poke', 0), protocol.get_arg_name('zz_iface', 'poke', 1)]
        nil_t = protocol.look_up_interface('zz_iface', 'poke', 1)
        l1 = protocol.look_up_enum('zz_iface', 'poke', 0, 1)
        lsh = protocol.look_up_enum('zz_iface', 'poke', 0, 1 << hv)
        lhex = protocol.look_up_enum('zz_iface', 'poke', 0, int('0x%d0' % hv, 16))
        third = protocol.look_up_enum('zz_iface', 'poke', 2, 1)
        if third != ['theirs%d' % hv]:
            V.append(Violation('protocol.qualified_enum', case, {'expected': ['theirs%d' % hv], 'observed': third}))
        lowest = min(v for v, _ in order)
        fourth = protocol.look_up_enum('zz_iface', 'poke', 3, 2)
        if fourth != ['holder_mode_of_version_%d' % (10 - lowest)]:
            V.append(Violation('protocol.qualified_enum_version', case, {'expected': ['holder_mode_of_version_%d' % (10 - lowest)], 'observed': fourth}))
        fifth = protocol.look_up_enum('zz_iface', 'poke', 4, 3)
        if fifth != ['level_of_version_%d' % hv]:
            V.append(Violation('protocol.enum_only_interface', case, {'expected': ['level_of_version_%d' % hv], 'observed': fifth}))
        if protocol.get_arg_name('zz_holder', 'hold', 0) != 'held%d' % (10 - lowest):
            V.append(Violation('protocol.precedence_other_interface', case, {'interface': 'zz_holder', 'expected_version': 10 - lowest}))
        ok = False
        for x in winners:
            sfx = '%d%s' % (hv, x)
            want_sh = ['shifted' + sfx]
            want_hex = ['hex' + sfx]
            if (1 << hv) == int('0x%d0' % hv, 16):
                want_sh = want_hex = ['shifted' + sfx, 'hex' + sfx]
            if names == ['first_v' + sfx, 'second_v' + sfx] and nil_t == 'zz_target_v' + sfx and \
                    l1 == ['m' + sfx] and lsh == want_sh and lhex == want_hex:
                ok = True
        if not ok:
            V.append(Violation('protocol.precedence', case, {'highest_version': hv, 'observed': [names, nil_t, l1, lsh, lhex]}))
        for v, _ in order:
            if protocol.get_arg_name('zz_only_v%d' % v, 'ping', 0) != 'p%d' % v:
                V.append(Violation('protocol.precedence_other_interface', case, {'interface': 'zz_only_v%d' % v}))
    except Exception:
        V.append(sut.exc_violation(case))
    finally:
        protocol.dump_all()
        protocol.interfaces.update(saved)
    return Eval(V, outcome=[hv if not V else -1], nontrivial=len({v for v, _ in order}) > 1, transitions=len(order))


def gen_precedence(tier):
    n = 3 if tier == 'quick' else 4
    versions = [(v, '') for v in range(1, n + 1)]
    for k in range(1, n + 1):
        for sub in itertools.combinations(versions, k):
            for perm in itertools.permutations(sub):
                yield {'order': [list(p) for p in perm]}
    # duplicated versions (same version described twice, equal or different content)
    for perm in itertools.permutations([(1, ''), (2, ''), (2, 'b')]):
        yield {'order': [list(p) for p in perm]}
    for perm in itertools.permutations([(3, ''), (1, ''), (3, '')]):
        yield {'order': [list(p) for p in perm]}
    if tier != 'quick':
        for perm in itertools.permutations([(1, ''), (2, ''), (4, 'b'), (4, ''), (3, '')]):
            yield {'order': [list(p) for p in perm]}


# ---- (d) array elements -----------------------------------------------------------

def eval_array(case):
    """Enum labels on the integer elements of an array argument (as GDB mode delivers arrays)."""
    from core import wl
    V = []
    iface, mname, idx = case['interface'], case['message'], case['arg']
    tp = top()
    d = tp[iface][0]
    args = d.messages[mname]
    an, at, ai, ae = args[idx]
    e = protoxml.HAND.get((iface, mname, an), ae)
    ens = protoxml.enum_candidates(tp, iface, e) if e else [None]
    vals = enum_values(ens, 'quick')[:12]
    try:
        s = sut.Session()
        s.feed_line('[3000000.000]  -> wl_display@1.get_registry(new id wl_registry@2)')
        s.feed_line('[3000000.100]  -> wl_registry@2.bind(1, "%s", %d, new id [unknown]@3)' % (iface, d.version))
        margs = []
        for j, (n2, t2, i2, e2) in enumerate(args):
            if j == idx:
                margs.append(wl.Arg.Array([wl.Arg.Int(v) for v in vals]))
            elif t2 in ('int', 'uint'):
                margs.append(wl.Arg.Int(0))
            elif t2 == 'array':
                margs.append(wl.Arg.Array())
            elif t2 == 'object':
                margs.append(wl.Arg.Null())
            else:
                margs.append(wl.Arg.Int(0))
        conn = s.cm.connections()[0]
        m = wl.Message(3000.0002, wl.UnresolvedObject(3, iface), False, mname, tuple(margs))
        conn.message(m)
        out, err = s.take()
        recs = [r for c, r in map(outparse.classify, out) if c == 'message']
        a = recs[0]['args'][idx] if recs else None
        ok = a is not None and a['kind'] == 'array' and a['name'] == an and a['values'] is not None and len(a['values']) == len(vals)
        if ok:
            for el, v in zip(a['values'], vals):
                want = [protoxml.labels(en, v) or None for en in ens]
                if el['name'] is not None or el.get('value') != v or el.get('labels') not in want:
                    ok = False
        if not ok:
            V.append(Violation('protocol.array_elements', case, {'values': vals, 'out': out, 'err': err}))
    except Exception:
        V.append(sut.exc_violation(case))
    return Eval(V, nontrivial=True, transitions=len(vals))


def gen_array():
    tp = top()
    for iface, cands in sorted(tp.items()):
        d = cands[0]
        for mname, args in d.messages.items():
            for idx, (an, at, ai, ae) in enumerate(args):
                if at == 'array' and (ae or protoxml.HAND.get((iface, mname, an))):
                    yield {'interface': iface, 'message': mname, 'arg': idx}


# ---- descriptions installed on the system beside the shipped ones ----------------------------------------------------
# load_all() also reads /usr/share/wayland and /usr/share/wayland-protocols.  What those hold is an answer of the
# environment: none (this image), older or newer releases of files the tool ships under the same name, unrelated files.
# The directory is presented to the protocol module through its `os` (listing and joining of that one path are redirected
# to a scratch tree; everything below it is real files).

class _PathShim:
    def __init__(self, real, virt, target):
        self._r, self._v, self._t = real, virt, target

    def __getattr__(self, n):
        return getattr(self._r, n)

    def isdir(self, p):
        return True if p == self._v else self._r.isdir(p)

    def isfile(self, p):
        return False if p == self._v else self._r.isfile(p)

    def exists(self, p):
        return True if p == self._v else self._r.exists(p)

    def join(self, a, *b):
        return self._r.join(self._t if a == self._v else a, *b)


class _OsShim:
    def __init__(self, real, virt, target):
        self._r, self._v, self._t = real, virt, target
        self.path = _PathShim(real.path, virt, target)

    def __getattr__(self, n):
        return getattr(self._r, n)

    def listdir(self, p='.'):
        return self._r.listdir(self._t if p == self._v else p)

    def walk(self, p, *a, **kw):
        return self._r.walk(self._t if p == self._v else p, *a, **kw)

    def scandir(self, p='.'):
        return self._r.scandir(self._t if p == self._v else p)


def _lowered(src, dst):
    """An older release of a shipped file: every interface at version 1, without what came later."""
    import xml.etree.ElementTree as ET
    tree = ET.parse(src)
    for i in tree.getroot().findall('interface'):
        i.set('version', '1')
        for m in list(i):
            if m.tag in ('request', 'event', 'enum') and int(m.get('since', '1')) > 1:
                i.remove(m)
            elif m.tag == 'enum':
                for e in list(m):
                    if e.tag == 'entry' and int(e.get('since', '1')) > 1:
                        m.remove(e)
    os.makedirs(os.path.dirname(dst), exist_ok=True)
    tree.write(dst)


def _raised(src, dst):
    """A newer release: every interface at version 99 with one more request."""
    import xml.etree.ElementTree as ET
    tree = ET.parse(src)
    for i in tree.getroot().findall('interface'):
        i.set('version', '99')
        r = ET.SubElement(i, 'request', {'name': 'zz_added_in_99', 'since': '99'})
        ET.SubElement(r, 'arg', {'name': 'zz_new_argument', 'type': 'int'})
    os.makedirs(os.path.dirname(dst), exist_ok=True)
    tree.write(dst)


INSTALLED = ['nothing_else', 'older_xdg_shell', 'older_wayland', 'newer_wayland', 'older_everything_with_a_twin']


def eval_installed(case):
    import shutil
    import tempfile
    from core.wl import protocol
    from core.output import Output, stream
    V = []
    ship = os.path.join(sut.REPO, 'resources', 'protocols')
    by_name = {}
    for f in protoxml.discover(ship):
        by_name.setdefault(os.path.basename(f), []).append(f)
    d = tempfile.mkdtemp(prefix='verif-c07-')
    real_os = getattr(protocol, 'os', None)
    try:
        with open(os.path.join(d, 'zz-installed-only.xml'), 'w') as f:
            f.write('<protocol name="zz"><interface name="zz_installed_only" version="1"><request name="ping">'
                    '<arg name="zz_serial" type="uint"/></request></interface></protocol>')
        k = case['installed']
        if k == 'older_xdg_shell':
            _lowered(max(by_name['xdg-shell.xml'], key=len), os.path.join(d, 'stable', 'xdg-shell', 'xdg-shell.xml'))
        elif k == 'older_wayland':
            _lowered(min(by_name['wayland.xml'], key=len), os.path.join(d, 'wayland.xml'))
        elif k == 'newer_wayland':
            _raised(min(by_name['wayland.xml'], key=len), os.path.join(d, 'wayland.xml'))
        elif k == 'older_everything_with_a_twin':
            for name, paths in sorted(by_name.items()):
                if len(paths) > 1:
                    _lowered(paths[0], os.path.join(d, 'twins', name))
        if real_os is None:
            return Eval([], outcome='seam_missing', nontrivial=False)
        protocol.os = _OsShim(real_os, '/usr/share/wayland-protocols', d)
        try:
            protocol.dump_all()
            protocol.load_all(Output(False, True, stream.String(), stream.String()))
        finally:
            protocol.os = real_os
        try:
            seen = protocol.get_arg_name('zz_installed_only', 'ping', 0) == 'zz_serial'
        except RuntimeError:
            seen = False
        if not seen:
            return Eval([], outcome='seam_missing', nontrivial=False)      # the loader does not look there (any more): nothing to compare
        ref = protoxml.load_tree([d, ship])
        n = 0
        for iface, cands in sorted(ref.items()):
            failures = []
            for cand in cands:
                bad = None
                for mname, args in cand.messages.items():
                    if (iface, mname) == ('wl_registry', 'bind'):
                        continue
                    for idx, (an, at, ai, ae) in enumerate(args):
                        n += 1
                        try:
                            got = protocol.get_arg_name(iface, mname, idx)
                        except RuntimeError as e:
                            got = 'error: ' + str(e)[:80]
                        if got != an:
                            bad = bad or {'message': mname, 'arg': idx, 'expected': an, 'observed': got,
                                          'version': cand.version, 'file': cand.path.replace(sut.REPO, '').replace(d, '<installed>')}
                failures.append(bad)
            if failures and all(b is not None for b in failures):
                V.append(Violation('protocol.installed_description', case, {'interface': iface, 'first_mismatch_per_candidate': failures}))
                if len(V) >= 3:
                    break
    except Exception:
        V.append(sut.exc_violation(case))
    finally:
        if real_os is not None:
            protocol.os = real_os
        shutil.rmtree(d, ignore_errors=True)
        # the next case of this worker starts from the ordinary set of descriptions again
        sut._protocols_loaded = False
        sut.ensure_protocols()
    return Eval(V, outcome=[case['installed'], len(V)], nontrivial=case['installed'] != 'nothing_else', transitions=1)


def run(run, tier, seed):
    sut.bind()
    sut.ensure_protocols()
    ifaces = sorted(top())
    res = explore.prod(lambda: ({'interface': i, 'tier': tier} for i in ifaces), eval_api, seed=seed,
                       bound={'interfaces': len(ifaces), 'bitfield_unions': 2 if tier == 'quick' else 'all'})
    res.states = res.transitions
    run.add_part('api', res)
    res = explore.prod(lambda: ({'interface': i, 'tier': tier} for i in ifaces), eval_display, seed=seed,
                       bound={'interfaces': len(ifaces)})
    res.states = res.transitions
    run.add_part('display', res)
    res = explore.prod(lambda: gen_same_name_pairs(tier), eval_same_name_pair, seed=seed)
    res.states = res.transitions
    run.add_part('same_name_enums', res)
    res = explore.prod(lambda: iter([{'unknown': True}]), eval_unknown, workers=1)
    run.add_part('unknown_interface', res)
    res = explore.prod(lambda: gen_precedence(tier), eval_precedence, workers=1, seed=seed,
                       bound={'versions': 3 if tier == 'quick' else 4})
    run.add_part('version_precedence', res)
    res = explore.prod(gen_array, eval_array, seed=seed)
    run.add_part('array_elements', res)
    res = explore.prod(lambda: ({'installed': k} for k in INSTALLED), eval_installed, seed=seed, bound={'system_directories': INSTALLED})
    run.add_part('installed_descriptions', res)
    ties = sum(1 for c in top().values() if len({d.content() for d in c}) > 1)
    run.rule = ('every shipped interface x message x argument position (%d interfaces, %d with differing tied top versions); '
                'every enum-typed argument x {entries, unions, 0, -1, max+1, 2^31}; all load orders of synthetic multi-version '
                'descriptions; non-trivial = interface with at least one enum-typed argument' % (len(ifaces), ties))
    run.bound = {'interfaces': len(ifaces), 'tied_interfaces': ties}
    run.assumptions = ['for interfaces whose highest version is described by several files the tool may pick any of them '
                       '(os.listdir order); the 17 hand-applied enum tags of load_all are reference data',
                       'messages with an untyped new id other than wl_registry.bind are skipped in the display part']


def replay(case):
    sut.bind()
    sut.ensure_protocols()
    if 'installed' in case:
        return eval_installed(case).viols
    if 'order' in case:
        return eval_precedence(case).viols
    if 'first' in case:
        return eval_same_name_pair(case).viols
    if 'unknown' in case:
        return eval_unknown(case).viols
    if 'message' in case:
        return eval_array(case).viols
    if case.get('part') == 'display':
        return eval_display(case).viols
    return eval_api(case).viols
