"""C08 - no input line is lost, reordered or altered; output keeps pace with input.

DEV engine: the default environment delivers a clean well-formed stream; a deviation
is an inserted chatter line (<=1 quick / <=2 thorough, at every position), a missing
final newline, or a truncation (at every character of every stream).  The real
`parse.into_sink` reads from an instrumented reader and writes to an item-recording
stream; oracle = item-for-item conservation, pacing at every readline, prefix
property under truncation."""
import itertools
import os
import traceback

from .. import sut, explore, outparse
from ..explore import Eval
from ..report import Violation
from ..ref import wlprint, objtable as ot
from . import c04

CHATTER = ['', 'hello', '  padded  ', '\tTab padded\t', '[123] not a message', 'wl_foo@3.bar()',
           '[ 123.456] discarded wl_foo@3.bar(1)', 'x' * 200, 'é… ünï', '[1000.000]', '   ',
           # characters that some line splitters (str.splitlines, codecs readers) treat as line ends; a very long line
           'form\x0cfeed', 'unit\x1fsep \x1c \x85 next', 'line\u2028sep \u2029 par', 'y' * 20000,
           # a program's own coloured output is that line's text
           '\x1b[32m INFO\x1b[0m app: started', 'reset \x1b[0m only',
           # a message interrupted inside a string argument (another thread's output cut in, the program was killed)
           '[5000000.150] wl_registry@2.global(4, "wl_comp', '[5000000.150]  -> xdg_toplevel@9.set_title("half a ti']


def _m(t, sent, iface, oid, name, args, conn=None):
    return {'t_us': t, 'sent': sent, 'iface': iface, 'id': oid, 'name': name, 'args': args, 'queue': None, 'conn': conn}


def base_streams():
    T = 5000000000
    s1 = [_m(T, True, 'wl_display', 1, 'get_registry', [['new', 'wl_registry', 2]]),
          _m(T + 100, False, 'wl_registry', 2, 'global', [['int', 1], ['str', 'wl_compositor'], ['int', 4]]),
          _m(T + 200, True, 'wl_registry', 2, 'bind', [['int', 1], ['str', 'wl_compositor'], ['int', 4], ['new', None, 3]]),
          _m(T + 300, True, 'wl_compositor', 3, 'create_surface', [['new', 'wl_surface', 4]]),
          _m(T + 400, True, 'wl_surface', 4, 'attach', [['nil'], ['int', 0], ['int', 0]]),
          _m(T + 500, True, 'wl_surface', 4, 'commit', []),
          _m(T + 600, True, 'wl_surface', 4, 'destroy', []),
          _m(T + 700, False, 'wl_display', 1, 'delete_id', [['int', 4]])]
    streams = {'s1_mid': [wlprint.render(m, 'mid') for m in s1]}
    case = {'scripts': ['a', 'b'], 'order': [0, 1, 1, 0, 0, 1, 0, 1, 1, 0]}
    streams['s2_cur_two_conns'] = [l for (_, l, _) in c04.render_ilv(case)[0]]
    s3 = [_m(T, True, 'wl_display', 1, 'get_registry', [['new', 'wl_registry', 2]]),
          _m(T + 100, True, 'wl_display', 1, 'sync', [['new', 'wl_callback', 3]]),
          _m(T + 2500000, False, 'wl_display', 1, 'delete_id', [['int', 3]]),
          _m(T + 2500100, False, 'wl_registry', 2, 'global', [['int', 2], ['str', 'a) b, (c'], ['int', 1]]),
          _m(T + 2500200, True, 'wl_registry', 2, 'bind', [['int', 2], ['str', 'zz_s'], ['int', 1], ['new', None, 3]]),
          _m(T + 4000000, True, 'zz_s', 3, 'say', [['str', 'x, y)'], ['fixed', 384], ['array', 0], ['fd', 7]])]
    streams['s3_old_gaps_strings'] = [wlprint.render(m, 'old') for m in s3]
    s4 = [_m(T, False, 'wl_display', 1, 'get_registry', [['new', 'wl_registry', 2]], conn='9'),
          _m(T + 100, True, 'wl_registry', 2, 'global', [['int', 1], ['str', 'wl_seat'], ['int', 5]], conn='9'),
          _m(T + 200, False, 'wl_registry', 2, 'bind', [['int', 1], ['str', 'wl_seat'], ['int', 5], ['new', None, 3]], conn='9'),
          _m(T + 300, False, 'wl_seat', 3, 'get_pointer', [['new', 'wl_pointer', 4]], conn='9'),
          _m(T + 400, True, 'wl_pointer', 4, 'button', [['int', 8], ['int', 100], ['int', 272], ['int', 1]], conn='9'),
          _m(T + 500, True, 'wl_pointer', 4, 'motion', [['int', 101], ['fixed', 256], ['fixed', -384]], conn='9')]
    streams['s4_cur_server'] = [wlprint.render(m, 'cur') for m in s4]
    s5 = [_m(T, True, 'wl_display', 1, 'get_registry', [['new', 'wl_registry', 2]], conn='261'),
          _m(T + 100, True, 'wl_registry', 2, 'bind', [['int', 1], ['str', 'xdg_wm_base'], ['int', 2], ['new', None, 3]], conn='261'),
          _m(T + 200, True, 'xdg_wm_base', 3, 'get_xdg_surface', [['new', 'xdg_surface', 4], ['nil']], conn='261'),
          _m(T + 300, True, 'xdg_surface', 4, 'get_toplevel', [['new', 'xdg_toplevel', 5]], conn='261'),
          _m(T + 400, True, 'xdg_toplevel', 5, 'set_title', [['str', '']], conn='261'),
          _m(T + 500, True, 'xdg_toplevel', 5, 'set_app_id', [['str', 'org.example.']], conn='261'),
          _m(T + 600, True, 'xdg_toplevel', 5, 'set_app_id', [['str', '']], conn='261'),
          _m(T + 700, True, 'xdg_toplevel', 5, 'set_title', [['str', '{untitled} - main() {} }{ {0} %s %(x)s']], conn='261'),
          _m(T + 800, False, 'xdg_toplevel', 5, 'close', [], conn='261')]
    for m in s5:
        m['queue'] = 'Default Queue'
    streams['s5_cur_queue_and_conn_empty_titles'] = [wlprint.render(m, 'cur') for m in s5]
    # a client that syncs before it asks for the registry (its side becomes known late), and messages that only the newest
    # shipped description of their interface has (older copies of wayland.xml are shipped beside it)
    s6 = [_m(T, True, 'wl_display', 1, 'sync', [['new', 'wl_callback', 3]]),
          _m(T + 100, True, 'wl_display', 1, 'get_registry', [['new', 'wl_registry', 2]]),
          _m(T + 200, False, 'wl_callback', 3, 'done', [['int', 5]]),
          _m(T + 300, False, 'wl_display', 1, 'delete_id', [['int', 3]]),
          _m(T + 400, True, 'wl_registry', 2, 'bind', [['int', 1], ['str', 'wl_compositor'], ['int', 6], ['new', None, 3]]),
          _m(T + 500, True, 'wl_compositor', 3, 'create_surface', [['new', 'wl_surface', 4]]),
          _m(T + 600, False, 'wl_surface', 4, 'preferred_buffer_scale', [['int', 2]]),
          _m(T + 700, True, 'wl_surface', 4, 'offset', [['int', 1], ['int', -2]]),
          _m(T + 800, False, 'wl_surface', 4, 'preferred_buffer_transform', [['int', 3]]),
          # a NULL string is printed as nil (allow-null string arguments: wl_data_offer.accept); the offer itself was
          # announced before this log began
          _m(T + 900, True, 'wl_data_offer', 30, 'accept', [['int', 5], ['nil']]),
          # a protocol error is not the end of the log: the client's teardown follows on the same connection
          _m(T + 1000, False, 'wl_display', 1, 'error', [['obj', 'wl_display', 1], ['int', 1], ['str', 'invalid arguments for wl_surface@4.attach']]),
          _m(T + 1100, True, 'wl_surface', 4, 'destroy', []),
          _m(T + 1200, True, 'wl_display', 1, 'sync', [['new', 'wl_callback', 5]]),
          # more than a minute of silence, then the answer
          _m(T + 75000000, False, 'wl_callback', 5, 'done', [['int', 9]]),
          _m(T + 75000100, False, 'wl_display', 1, 'delete_id', [['int', 5]])]
    streams['s6_mid_late_registry_newest_messages'] = [wlprint.render(m, 'mid') for m in s6]
    # libwayland's stamp is a 32-bit microsecond counter: an object created before it wraps and deleted after
    W = 2 ** 32
    s7 = [_m(W - 300000, True, 'wl_display', 1, 'get_registry', [['new', 'wl_registry', 2]]),
          _m(W - 200000, True, 'wl_display', 1, 'sync', [['new', 'wl_callback', 3]]),
          _m(W - 100000, False, 'wl_registry', 2, 'global', [['int', 1], ['str', 'wl_shm'], ['int', 1]]),
          _m(100000, False, 'wl_callback', 3, 'done', [['int', 1]]),
          _m(200000, False, 'wl_display', 1, 'delete_id', [['int', 3]]),
          _m(300000, True, 'wl_display', 1, 'sync', [['new', 'wl_callback', 3]])]
    streams['s7_old_stamp_wraps'] = [wlprint.render(m, 'old') for m in s7]
    return streams


class ItemStream:
    """An output stream (core.output.stream.Base protocol) recording each write."""

    def __init__(self, items, tag):
        self.items = items
        self.tag = tag

    def write(self, thing):
        self.items.append((self.tag, str(thing)))


class Reader:
    """Text reader delivering `text` line by line; records how many items exist at each readline()."""

    def __init__(self, text, items):
        self.lines = [l + '\n' for l in text.split('\n')]       # only \n ends a line of libwayland output
        if self.lines[-1] == '\n':
            self.lines.pop()
        else:
            self.lines[-1] = self.lines[-1][:-1]
        self.i = 0
        self.items = items
        self.marks = []

    def readline(self, size=-1):
        # the io protocol: at most `size` characters when a limit is given; a call is a request for more input
        if getattr(self, 'rest', ''):
            l, self.rest = self.rest[:size], self.rest[size:]
            return l
        self.marks.append(len(self.items))
        if self.i < len(self.lines):
            l = self.lines[self.i]
            self.i += 1
            if size is not None and 0 <= size < len(l):
                l, self.rest = l[:size], l[size:]
            return l
        return ''


def run_stream(text, unprocessed=True):
    """-> (items grouped per input line, trailing items after EOF, err items)"""
    from core import ConnectionManager, matcher
    from core.output import Output
    from frontends.tui import Controller
    from backends.libwayland_debug_output import parse
    sut.reset_globals()
    sut.ensure_protocols()
    items = []
    out = Output(False, unprocessed, ItemStream(items, 'out'), ItemStream(items, 'err'))
    cm = ConnectionManager()
    Controller(out, cm, matcher.always, matcher.never)
    rd = Reader(text, items)
    parse.into_sink(rd, out, cm)
    nlines = len(rd.lines)
    marks = rd.marks
    groups = []
    for k in range(nlines):
        groups.append(items[marks[k]:marks[k + 1]] if k + 1 < len(marks) else None)
    tail = items[marks[nlines]:] if len(marks) > nlines else None
    return groups, tail, len(marks), sut.LOG.take()


def kind_of(item):
    tag, text = item
    if tag == 'err':
        return 'err'
    c, r = outparse.classify(text)
    return c


def essential(group):
    """Items of a group with notices and separators masked."""
    return [it for it in group if kind_of(it) not in ('notice', 'separator')]


def make_text(lines, final_newline=True):
    t = '\n'.join(lines) + '\n'
    return t if final_newline else t[:-1]


def eval_chatter(case):
    """case: stream name, insertions [(position, chatter index)...], suppress, final_newline"""
    V = []
    try:
        base = base_streams()[case['stream']]
        clean_groups, _, _, _ = run_stream(make_text(base))
        clean = [essential(g) for g in clean_groups]
        for k, g in enumerate(clean):
            # every line of a base stream is a well-formed message: its one item is the decoded message, not a complaint
            if len(g) != 1 or kind_of(g[0]) != 'message':
                V.append(Violation('conservation.message_not_decoded', case, {'line': base[k], 'observed': g}))
        lines = [(l, True) for l in base]
        for pos, ci in sorted(case['insert'], key=lambda x: -x[0]):
            lines.insert(pos, (CHATTER[ci], False))
        text = make_text([l for l, _ in lines], case['final_newline'])
        if not case['final_newline'] and lines[-1][0] == '':
            return Eval([], nontrivial=False)   # an empty last line without newline is no line at all
        groups, tail, nreads, logs = run_stream(text, unprocessed=not case['suppress'])
        if nreads != len(lines) + 1:
            V.append(Violation('pacing.reads', case, {'expected_readline_calls': len(lines) + 1, 'observed': nreads}))
        k = 0
        for n, ((l, is_msg), g) in enumerate(zip(lines, groups)):
            if g is None:
                V.append(Violation('conservation.lost', case, {'line_index': n, 'line': l}))
                continue
            e = essential(g)
            if is_msg:
                want = clean[k]
                k += 1
                if [x[1] for x in e] != [x[1] for x in want]:
                    V.append(Violation('conservation.message', case, {'line_index': n, 'line': l, 'expected': want, 'observed': e}))
            else:
                if case['suppress']:
                    if e:
                        V.append(Violation('conservation.suppress', case, {'line_index': n, 'line': l, 'observed': e}))
                else:
                    ok = len(e) == 1 and kind_of(e[0]) == 'passthrough' and \
                        outparse.classify(e[0][1])[1]['text'] == l.strip()
                    if not ok:
                        V.append(Violation('conservation.passthrough', case, {'line_index': n, 'line': l, 'observed': e}))
        if tail is None or [kind_of(i) for i in tail].count('notice') != len(tail):
            V.append(Violation('conservation.tail', case, {'observed': tail}))
        # naming a connection is best effort; one base stream addresses an object announced before the log began
        logs = [l for l in logs if 'Could not set connection name' not in l[1] and 'Unable to resolve object' not in l[1]]
        if logs:
            V.append(Violation('log.noise', case, {'log': logs}))
    except Exception:
        V.append(sut.exc_violation(case))
    return Eval(V, outcome=[case['stream'], len(V)], nontrivial=bool(case['insert']), transitions=len(case['insert']) + 10)


def eval_truncation(case):
    V = []
    try:
        base = base_streams()[case['stream']]
        lines = list(base)
        for pos, ci in sorted(case.get('insert', []), key=lambda x: -x[0]):
            lines.insert(pos, CHATTER[ci])
        full = make_text(lines)
        fgroups, ftail, _, _ = run_stream(full)
        cut = full[:case['cut']]
        groups, tail, nreads, logs = run_stream(cut)
        ncomplete = cut.count('\n')
        partial = len(cut) > 0 and not cut.endswith('\n')
        for n in range(ncomplete):
            if groups[n] != fgroups[n]:
                V.append(Violation('truncation.prefix', case, {'line_index': n, 'expected': fgroups[n], 'observed': groups[n]}))
                break
        opened = set()
        for g in groups:
            for it in (g or []):
                if kind_of(it) == 'notice' and outparse.classify(it[1])[1]['what'] == 'New':
                    opened.add(outparse.classify(it[1])[1]['conn'])
        if partial:
            g = groups[ncomplete]
            # the cut line is a line like any other: exactly one item (its text passed through, or - when the cut leaves
            # a complete message - that message); a cut line of blanks only may come out as an empty item or as none
            last = cut.split('\n')[-1]
            if g is None or len(essential(g)) > 1 or (len(essential(g)) == 0 and last.strip()):
                V.append(Violation('truncation.cut_line', case, {'cut_line': last, 'observed': g}))
        closed = [outparse.classify(it[1])[1] for it in (tail or []) if kind_of(it) == 'notice']
        if tail is None or len(closed) != len(tail) or any(c['what'] != 'Closed' for c in closed) or \
                sorted(c['conn'] for c in closed) != sorted(opened):
            V.append(Violation('truncation.tail', case, {'opened': sorted(opened), 'observed': tail}))
    except Exception:
        V.append(sut.exc_violation(case))
    return Eval(V, outcome=[case['stream'], len(V)], nontrivial=True, transitions=10)


# ---- pipe mode: the real entry point, standard input delivering one line per read --------------

class LineRaw:
    pass


def eval_pipe_pacing(case):
    """main.piped_input_main with sys.stdin = TextIOWrapper(BufferedReader(raw)) where raw hands out one
    line per read: whenever the tool asks for more input, everything for the lines already delivered must be out."""
    import io
    import sys
    import main as wd_main
    from core import ConnectionManager, matcher
    from core.output import Output
    from frontends.tui import Controller
    V = []
    try:
        base = base_streams()[case['stream']]
        lines = list(base)
        for pos, ci in sorted(case.get('insert', []), key=lambda x: -x[0]):
            lines.insert(pos, CHATTER[ci])
        sut.reset_globals()
        sut.ensure_protocols()
        items = []
        out = Output(False, True, ItemStream(items, 'out'), ItemStream(items, 'err'))
        cm = ConnectionManager()
        Controller(out, cm, matcher.always, matcher.never)
        marks = []
        data = [(l + '\n').encode() for l in lines]

        class Raw(io.RawIOBase):
            def __init__(self):
                self.k = 0
                self.rest = b''

            def readable(self):
                return True

            def readinto(self, b):
                if not self.rest:
                    marks.append(len([i for i in items if kind_of(i) not in ('notice', 'separator')]))
                    if self.k >= len(data):
                        return 0
                    self.rest = data[self.k]
                    self.k += 1
                n = min(len(b), len(self.rest))
                b[:n] = self.rest[:n]
                self.rest = self.rest[n:]
                return n
        saved = sys.stdin
        sys.stdin = io.TextIOWrapper(io.BufferedReader(Raw()), encoding='utf-8')
        try:
            wd_main.piped_input_main(out, cm)
        finally:
            sys.stdin = saved
        # when line k (0-based) is requested, the k lines delivered before it have each produced their one item
        for k, m in enumerate(marks[:len(lines) + 1]):
            if m != k:
                V.append(Violation('pacing.pipe', case, {'lines_delivered': k, 'items_out_when_more_input_was_requested': m}))
                break
        total = len([i for i in items if kind_of(i) not in ('notice', 'separator')])
        if total != len(lines):
            V.append(Violation('conservation.pipe', case, {'lines': len(lines), 'items': total}))
    except Exception:
        V.append(sut.exc_violation(case))
    return Eval(V, outcome=[case['stream'], len(V)], nontrivial=True, transitions=len(case.get('insert', [])) + 8)


def gen_pipe(tier):
    for name, base in base_streams().items():
        yield {'stream': name, 'insert': []}
        for pos in range(len(base) + 1):
            for ci in range(len(CHATTER)):
                if tier == 'quick' and (pos + ci) % 3:
                    continue
                yield {'stream': name, 'insert': [[pos, ci]]}


def gen_chatter(tier):
    maxdev = 1 if tier == 'quick' else 2
    for name, base in base_streams().items():
        npos = len(base) + 1
        for k in range(maxdev + 1):
            for positions in itertools.combinations_with_replacement(range(npos), k):
                for cis in itertools.product(range(len(CHATTER)), repeat=k):
                    for suppress in (False, True):
                        for fn in (True, False):
                            yield {'stream': name, 'insert': [list(x) for x in zip(positions, cis)],
                                   'suppress': suppress, 'final_newline': fn}


def gen_trunc(tier):
    for name, base in base_streams().items():
        variants = [[]]
        variants.append([[2, 1], [len(base), 8]])
        for ins in variants:
            lines = list(base)
            for pos, ci in sorted(ins, key=lambda x: -x[0]):
                lines.insert(pos, CHATTER[ci])
            n = len(make_text(lines))
            step = 1 if tier == 'thorough' else 1
            for cut in range(0, n + 1, step):
                yield {'stream': name, 'insert': ins, 'cut': cut}


def eval_file_source(case):
    """The real command line in file mode: what `-l` names may be a regular file or something that has no size - a
    named pipe (`-l <(cmd)`, a FIFO): every line must produce its item all the same."""
    import subprocess
    import tempfile
    import threading
    V = []
    base = base_streams()[case['stream']]
    lines = list(base)
    lines.insert(2, 'chatter in between')
    lines.insert(0, '')
    text = make_text(lines, case['final_newline'])
    main_py = os.path.join(sut.REPO, 'main.py')
    env = dict(os.environ, PYTHONDONTWRITEBYTECODE='1')
    env.pop('WAYLAND_DEBUG', None)
    flags = ['-C'] + (['--supress'] if case['suppress'] else [])
    with tempfile.TemporaryDirectory(prefix='verif-c08-') as d:
        reg = os.path.join(d, 'in.log')
        with open(reg, 'w') as f:
            f.write(text)
        try:
            want = subprocess.run(['/venv/bin/python', main_py] + flags + ['-l', reg], input='q\n', capture_output=True, text=True,
                                  env=env, cwd=d, timeout=60)
            fifo = os.path.join(d, 'in.fifo')
            os.mkfifo(fifo)

            def writer():
                with open(fifo, 'w') as f:
                    f.write(text)
            th = threading.Thread(target=writer, daemon=True)
            p = subprocess.Popen(['/venv/bin/python', main_py] + flags + ['-l', fifo], stdin=subprocess.PIPE, stdout=subprocess.PIPE,
                                 stderr=subprocess.PIPE, text=True, env=env, cwd=d)
            th.start()
            try:
                out, err = p.communicate('q\n', timeout=60)
            except subprocess.TimeoutExpired:
                p.kill()
                out, err = p.communicate()
                V.append(Violation('conservation.file_source_hangs', case, {'stdout_tail': out[-300:]}))
            if th.is_alive():
                # nobody opened the pipe for reading: release the writer
                try:
                    fd = os.open(fifo, os.O_RDONLY | os.O_NONBLOCK)
                    os.close(fd)
                except OSError:
                    pass
            if not V and (out != want.stdout or p.returncode != want.returncode):
                a, b = want.stdout.split('\n'), out.split('\n')
                k = next((i for i, (x, y) in enumerate(zip(a, b)) if x != y), min(len(a), len(b)))
                V.append(Violation('conservation.file_source', case, {'regular_file': a[k:k + 2], 'named_pipe': b[k:k + 2],
                                                                       'lines_regular': len(a), 'lines_pipe': len(b), 'stderr': err[-300:]}))
            if not want.stdout.strip():
                V.append(Violation('conservation.file_source', case, {'regular_file_output': want.stdout, 'stderr': want.stderr[-300:]}))
        except Exception:
            V.append(sut.exc_violation(case))
    return Eval(V, outcome=[case['stream'], case['suppress'], len(V)], nontrivial=True, transitions=2)


def gen_file_source(tier):
    for name in base_streams():
        for suppress in (False, True):
            for fn in ((True, False) if tier != 'quick' else (True,)):
                yield {'file_source': True, 'stream': name, 'suppress': suppress, 'final_newline': fn}


def run(run, tier, seed):
    sut.bind()
    sut.ensure_protocols()
    res = explore.prod(lambda: gen_file_source(tier), eval_file_source, seed=seed, bound={'sources': ['regular file', 'named pipe']})
    run.add_part('file_mode_sources', res)
    res = explore.prod(lambda: gen_chatter(tier), eval_chatter, seed=seed,
                       bound={'chatter_insertions': 1 if tier == 'quick' else 2})
    run.add_part('chatter', res)
    res = explore.prod(lambda: gen_trunc(tier), eval_truncation, seed=seed, bound={'truncation': 'every character'})
    run.add_part('truncation', res)
    res = explore.prod(lambda: gen_pipe(tier), eval_pipe_pacing, seed=seed, bound={'one_line_per_read': True})
    run.add_part('pipe_pacing', res)
    run.rule = ('deviation-bounded: 4 well-formed base streams; every placement of <=k chatter lines from an alphabet of %d '
                'x suppress x final newline; truncation at every character offset; non-trivial = at least one deviation'
                % len(CHATTER))
    run.bound = {'chatter_insertions': 1 if tier == 'quick' else 2, 'truncation_points': 'all'}
    run.assumptions = ['one call of Output.show/unprocessed = one item of output; New/Closed notices and gap separators '
                       'are masked (C04 / C16 judge them)']


def replay(case):
    sut.bind()
    sut.ensure_protocols()
    if case.get('file_source'):
        return eval_file_source(case).viols
    if 'cut' in case:
        return eval_truncation(case).viols
    if 'suppress' not in case:
        return eval_pipe_pacing(case).viols
    return eval_chatter(case).viols
