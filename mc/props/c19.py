"""C19 - everything after -r/-g is forwarded verbatim; everything before is ours.

PROD engine: all argument vectors of <=3 / <=4 units (a unit is a flag, a flag
cluster, an option with its value, a marker in any spelling, or a forwarded word that
looks like one of ours) with at most two markers, given to the real parse_args; GDB
mode: run_gdb with Popen recorded, the generated `python ...` command re-evaluated;
a slice runs the real command line (real child, real gdb -batch)."""
import contextlib
import io
import itertools
import json
import os
import shutil
import subprocess
import sys
import tempfile
import types

from .. import sut, explore
from ..explore import Eval
from ..report import Violation
from ..ref import argv as ra

# A scratch directory of this run's own (several runs may go on at the same time); cases name its files by placeholder
SCRATCH = None
PROG = '@PROG@'
LIBDIR = '@LIBDIR@'


def real(words):
    return [w.replace('@PROG@', SCRATCH + '/echo prog.sh').replace('@LIBDIR@', SCRATCH + '/lib dir') for w in words]
ARGV0 = 'main.py'

MATCHER_OK = {'(="\U0001F600")': True, '(="é\u2028")': True,
              'wl_pointer': True, '! .motion': True, '(="a b")': True, '[': False, 'a:b:c': False, '(="q\\z")': True,
              'wl_surface.commit': True, '(="a\\tb")': True, 'run': True, 'g': True, '(="100%, %s %%")': True, ' ': False}

UNITS = [
    ('-C',), ('--color',), ('--supress',), ('-p',), ('-r',), ('-g',), (PROG,),
    ('-f', 'wl_pointer'), ('-l', 'in.log'), ('-b', 'wl_surface.commit'), ('-Cr',), ('-Cg',),
    ('--run',), ('--gdb',), ('-f', '! .motion'), ('-f', '['), ('-b', 'a:b:c'), ('-f', '(="a b")'), ('-b', '(="q\\z")'),
    ('-l', 'my file.log'), ('-l', 'q"z.log'), ('-l', 'back\\slash.log'), ('--libwayland', LIBDIR), ('--verbose',),
    ('-pr',), ('-f',), ('a b',), ('q"z',), ('back\\slash',), ('',), ('-x',), ('-pC',), ('-f', '(="a\\tb")'),
    ('new\nline',), ('-l', 'C:\\new\\table.log'),
    ('-f', '(="\U0001F600")'), ('-b', '(="é\u2028")'), ('-l', ''), ('--',),
    # single-dash words of other programs: forwarded verbatim after a marker, rejected before one
    ('-rf',), ('-geometry', '80x24'),
    # option values that spell a marker without its dashes
    ('-f', 'run'), ('-l', 'gdb'), ('-b', 'g'),
    # per cent signs in a value; a value made of blanks only
    ('-f', '(="100%, %s %%")'), ('-b', ' '),
]
MARKER_UNITS = {('-r',), ('-g',), ('--run',), ('--gdb',), ('-Cr',), ('-Cg',), ('-pr',)}


def setup_scratch():
    global SCRATCH
    SCRATCH = tempfile.mkdtemp(prefix='verif-c19-', dir='/var/tmp')
    # removed when this process ends (not earlier: confirmation and in-context re-runs come after run() has returned)
    import atexit
    atexit.register(shutil.rmtree, SCRATCH, True)
    os.makedirs(real([LIBDIR])[0], exist_ok=True)
    with open(real([PROG])[0], 'w') as f:
        f.write('#!/bin/sh\n'
                'out="$VERIF_ECHO_FILE"\n'
                ': > "$out"\n'
                'for a in "$@"; do printf "%s\\0" "$a" >> "$out"; done\n'
                'printf "WAYLAND_DEBUG=%s\\0" "$WAYLAND_DEBUG" >> "$out"\n'
                'echo "child stdout marker"\n'
                'exit 7\n')
    os.chmod(real([PROG])[0], 0o755)
    with open(SCRATCH + '/echo_argv.py', 'w') as f:
        f.write('import sys, json, os\n'
                'json.dump(sys.argv, open(os.environ["VERIF_ECHO_FILE"], "w"))\n')


def gen_vectors(tier):
    n = 3 if tier == 'quick' else 4
    units = UNITS
    for L in range(0, n + 1):
        for combo in itertools.product(range(len(units)), repeat=L):
            if sum(1 for i in combo if units[i] in MARKER_UNITS) > 2:
                continue
            yield {'units': list(combo)}


def words_of(case):
    w = []
    for i in case['units']:
        w += list(UNITS[i])
    return real(w)


@contextlib.contextmanager
def quiet():
    o, e = io.StringIO(), io.StringIO()
    with contextlib.redirect_stdout(o), contextlib.redirect_stderr(e):
        yield o, e


def call_parse_args(words):
    from frontends.tui import parse_args
    sut.LOG.take()
    with quiet() as (o, e):
        try:
            a = parse_args([ARGV0] + words)
            return 'ok', a, o.getvalue(), e.getvalue()
        except SystemExit as x:
            return 'exit', x.code, o.getvalue(), e.getvalue()
        except RuntimeError as x:
            return 'runtime_error', str(x), o.getvalue(), e.getvalue()


def evaluate(case):
    from core import matcher
    from core.util import set_color_output
    V = []
    words = words_of(case)
    exp = ra.expect(words)
    if exp['outcome'] == 'ok':
        st = exp['settings']
        for k, earlier in st['repeated']:
            if k in ('filter', 'break') and MATCHER_OK.get(earlier) is not True:
                # an earlier value of a repeated -f / -b that is malformed (or not known to be well-formed): reporting it and
                # ignoring it in favour of the later one are both within the statement
                exp = dict(exp, outcome='ok_or_error')
        for k in ('filter', 'break'):
            if st[k] is not None and st[k] not in MATCHER_OK:
                # a stray word became the value: whether it is a well-formed matcher is not known to the reference
                exp = dict(exp, outcome='ok_or_error')
        for k in ('filter', 'break'):
            if st[k] is not None and MATCHER_OK.get(st[k]) is False:
                exp = {'outcome': 'error', 'why': 'malformed %s matcher %s' % (k, st[k])}
                break
    try:
        kind, a, out, err = call_parse_args(words)
        set_color_output(False)
        detail = {'argv': [ARGV0] + words, 'expected': {k: v for k, v in exp.items() if k != 'settings'}}
        if exp['outcome'] == 'error':
            if kind == 'ok' or (kind == 'exit' and a in (0, None)):
                V.append(Violation('argv.error_ignored', case, dict(detail, observed=kind, stdout=out[:200])))
        elif exp['outcome'] == 'usage':
            if not (kind == 'exit' and 'usage:' in out.lower()):
                V.append(Violation('argv.usage', case, dict(detail, observed=[kind, str(a)[:100]], stdout=out[:100])))
        else:
            st = exp['settings']
            if kind != 'ok' and exp['outcome'] == 'ok_or_error' and not (kind == 'exit' and a in (0, None)):
                pass
            elif kind != 'ok':
                V.append(Violation('argv.rejected', case, dict(detail, observed=[kind, str(a)[:200]], stderr=err[-300:])))
            else:
                mode = {'run': 'run', 'gdb': 'gdb-runner', 'load': 'load-from-file', 'pipe': 'pipe'}[exp['mode']]
                obs = {'mode': getattr(a.mode, 'value', a.mode), 'right': list(a.command_args), 'left': list(a.wayland_debug_args),
                       'color': a.show_color, 'unprocessed': a.show_unprocessed_output, 'verbose': a.show_verbose,
                       'load': a.load_path, 'lib': a.wayland_lib_dir}
                want = {'mode': mode, 'right': exp['right'], 'left': [ARGV0] + exp['left'],
                        'color': bool(st['color'] and not st['no_color']), 'unprocessed': not st['supress'],
                        'verbose': st['verbose'], 'load': st['load'] or '',
                        'lib': st['libwayland'] if st['libwayland'] and os.path.isdir(st['libwayland']) else None}
                for k in want:
                    if obs[k] != want[k]:
                        sub = {'right': 'forwarded', 'left': 'ours', 'mode': 'mode'}.get(k, 'setting')
                        V.append(Violation('argv.' + sub, case, dict(detail, field=k, want=want[k], observed=obs[k])))
                        break
                for k, attr, dflt in (('filter', 'filter_matcher', matcher.always), ('break', 'stop_matcher', matcher.never)):
                    got = str(getattr(a, attr))
                    if st[k] is None:
                        if got != str(dflt):
                            V.append(Violation('argv.matcher_default', case, dict(detail, field=k, observed=got)))
                    elif st[k] == '' or any(r[0] == k for r in st['repeated']):
                        pass          # an empty value is outside the alphabet of matchers; a repeated option is not specified
                    else:
                        want_m = str(matcher.parse(st[k]).simplify())
                        if got != want_m:
                            V.append(Violation('argv.matcher', case, dict(detail, field=k, want=want_m, observed=got)))
                if mode == 'gdb-runner' and not V:
                    V += check_gdb_runner(a, exp, case, detail)
    except Exception:
        V.append(sut.exc_violation(case))
    nm = sum(1 for i in case['units'] if UNITS[i] in MARKER_UNITS)
    return Eval(V, outcome=[exp['outcome'], exp.get('mode')], nontrivial=nm >= 1 and exp['outcome'] == 'ok', transitions=1)


def check_gdb_runner(a, exp, case, detail):
    """run_gdb with Popen recorded in the runner's namespace."""
    from backends.gdb_plugin import runner
    V = []
    if not hasattr(runner, 'subprocess'):
        return V     # seam gone (refactor): recorded as skipped by the caller's counters, never a violation
    real = runner.subprocess
    rec = {}

    class P:
        def __init__(self, args, env=None, **kw):
            rec['args'] = list(args)
            rec['env'] = env
            self.returncode = 0

        def wait(self):
            return 0
    runner.subprocess = types.SimpleNamespace(run=real.run, Popen=P, PIPE=real.PIPE)
    try:
        with quiet():
            runner.run_gdb(a, True)
    finally:
        runner.subprocess = real
    args = rec.get('args')
    right = exp['right']
    if not args or args[0] != 'gdb' or args[len(args) - len(right):] != right or '-ex' not in args:
        V.append(Violation('gdb.forwarded', case, dict(detail, gdb_command=args)))
        return V
    # GDB gets the tool's own words (the python command that starts the plugin), then the forwarded words and nothing
    # between or among them: a word slipped in there (`--args`) changes what GDB takes the forwarded words for
    if args[args.index('-ex') + 2:] != right:
        V.append(Violation('gdb.forwarded', case, dict(detail, gdb_command=args, after_own_command=args[args.index('-ex') + 2:], forwarded=right)))
        return V
    cmd = args[args.index('-ex') + 1]
    want = [ARGV0] + exp['left']
    got = eval_gdb_python(cmd)
    if got != want:
        V.append(Violation('gdb.plugin_argv', case, dict(detail, want=want, observed=got, command=cmd)))
    return V


def eval_gdb_python(cmd):
    """What sys.argv the inner instance gets: GDB's `python <code>` command executes the
    rest of the *line* as Python code."""
    if not cmd.startswith('python '):
        return 'not a python command'
    line = cmd[len('python '):]
    if '\n' in line:
        line = line.split('\n', 1)[0]      # GDB reads a command up to the end of the line
    saved = sys.argv
    ns = {'__builtins__': dict(vars(__import__('builtins')), open=lambda *a, **k: io.StringIO(''))}
    try:
        import warnings
        with warnings.catch_warnings():
            warnings.simplefilter('ignore')
            exec(compile(line, '<gdb python command>', 'exec'), ns)
        return list(sys.argv)
    except Exception as e:
        return 'python command failed: %s: %s' % (type(e).__name__, e)
    finally:
        sys.argv = saved


# ---------------------------------------------------------------------------
# real command line slice

def gen_cli(tier):
    lefts = [[], ['-C'], ['-f', 'wl_pointer'], ['--supress', '-b', '(="a b")'], ['-f', '! .motion', '-C'],
             ['-f', '(="q\\z")'], ['-f', '(="a\\tb")'], ['-f', '(="\U0001F600 é\u2028")']]
    rights = [[], ['-f', '-r', '--gdb', '-Cg'], ['a b', 'q"z', 'back\\slash', ''], ['--run', '-p', '-l', 'x'], ['--', '-x', '--'],
              ['-rf', 'some dir', '-geometry', '80x24', '-args', '-gr'], ['--matcher-help', '--help', '-h', '100%s']]
    markers = ['-r', '--run'] if tier == 'quick' else ['-r', '--run', '-Cr']
    for l in lefts:
        for r in rights:
            for m in markers:
                yield {'cli': 'run', 'left': l, 'marker': m, 'right': r}
    yield {'cli': 'bare_name'}
    # started by something that has closed standard output (a launcher, `>&-`): the program still gets its words
    for l in ([], ['-C'], ['--supress']):
        yield {'cli': 'run', 'left': l, 'marker': '-r', 'right': ['first', '-f', 'wl_pointer', '--gdb', 'last'], 'stdout': 'closed'}
    # nothing must run
    for words in ([], ['-p', '-r', PROG], ['-l', 'nofile', '--run', PROG], ['-f', '[', '-r', PROG], ['-b', 'a:b:c', '-r', PROG],
                  ['-rC', PROG], ['-x', '-r', PROG], [PROG, '-r', PROG], ['-f', '-r', PROG]):
        yield {'cli': 'norun', 'words': words}
    for l in (lefts if tier != 'quick' else lefts[:2] + lefts[5:]):
        for m in (['-g', '--gdb', '-Cg'] if tier != 'quick' else ['-g']):
            yield {'cli': 'gdb', 'left': l, 'marker': m}


def eval_cli(case):
    V = []
    with tempfile.TemporaryDirectory(prefix='verif-c19-') as d:
        echo = os.path.join(d, 'echo')
        env = dict(os.environ, VERIF_ECHO_FILE=echo, PYTHONDONTWRITEBYTECODE='1')
        env.pop('WAYLAND_DEBUG', None)
        main_py = os.path.join(sut.REPO, 'main.py')
        try:
            if case['cli'] == 'run':
                argv = ['/venv/bin/python', main_py] + case['left'] + [case['marker']] + real([PROG]) + case['right']
                closed = case.get('stdout') == 'closed'
                if closed:
                    p = subprocess.run(argv, input='q\n', stdout=None, stderr=subprocess.PIPE, text=True, env=env, cwd=d, timeout=60,
                                       preexec_fn=lambda: os.close(1))
                    p.stdout = ''
                else:
                    p = subprocess.run(argv, input='q\n', capture_output=True, text=True, env=env, cwd=d, timeout=60)
                got = open(echo, 'rb').read().split(b'\0')[:-1] if os.path.exists(echo) else None
                want = [w.encode() for w in case['right']] + [b'WAYLAND_DEBUG=1']
                if got != want or (not closed and (p.returncode != 7 or 'child stdout marker' not in p.stdout)):
                    V.append(Violation('cli.run', case, {'child_saw': [g.decode('utf-8', 'replace') for g in got] if got is not None else None,
                                                         'want': [w.decode() for w in want], 'returncode': p.returncode,
                                                         'stderr': p.stderr[-300:]}))
            elif case['cli'] == 'bare_name':
                out = os.path.join(d, 'argv0')
                argv = ['/venv/bin/python', main_py, '-r', 'sh', '-c', 'printf "%s" "$0" > "' + out + '"']
                p = subprocess.run(argv, input='q\n', capture_output=True, text=True, env=env, cwd=d, timeout=60)
                got = open(out).read() if os.path.exists(out) else None
                if got != 'sh':
                    V.append(Violation('cli.program_name', case, {'program_saw_argv0': got, 'want': 'sh', 'stderr': p.stderr[-300:]}))
            elif case['cli'] == 'norun':
                argv = ['/venv/bin/python', main_py] + real(case['words'])
                p = subprocess.run(argv, input='q\n', capture_output=True, text=True, env=env, cwd=d, timeout=60)
                if os.path.exists(echo):
                    V.append(Violation('cli.ran_anyway', case, {'returncode': p.returncode, 'stdout': p.stdout[-200:]}))
                if not (p.stdout + p.stderr).strip():
                    V.append(Violation('cli.silent', case, {'returncode': p.returncode}))
            else:
                # the real GDB runs the generated python command; the inner "instance" is a script echoing sys.argv
                script = SCRATCH + '/echo_argv.py'
                from backends.gdb_plugin import runner
                from frontends.tui import parse_args
                words = case['left'] + [case['marker'], '-batch', '-nx']
                with quiet():
                    a = parse_args([script] + words)
                old = dict(os.environ)
                os.environ['VERIF_ECHO_FILE'] = echo
                try:
                    devnull = os.open(os.devnull, os.O_WRONLY)
                    so, se = os.dup(1), os.dup(2)
                    os.dup2(devnull, 1)
                    os.dup2(devnull, 2)
                    try:
                        runner.run_gdb(a, True)
                    finally:
                        os.dup2(so, 1)
                        os.dup2(se, 2)
                        os.close(devnull)
                        os.close(so)
                        os.close(se)
                finally:
                    os.environ.clear()
                    os.environ.update(old)
                got = json.load(open(echo)) if os.path.exists(echo) else None
                left = ra.split(words)[0]
                want = [script] + left
                if got != want:
                    V.append(Violation('cli.gdb_plugin_argv', case, {'want': want, 'observed': got}))
        except Exception:
            V.append(sut.exc_violation(case))
    return Eval(V, outcome=case['cli'], nontrivial=True, transitions=1)


def run(run, tier, seed):
    sut.bind()
    setup_scratch()
    try:
        res = explore.prod(lambda: gen_vectors(tier), evaluate, seed=seed,
                           bound={'units_per_vector': 3 if tier == 'quick' else 4, 'units': len(UNITS), 'max_markers': 2})
        run.add_part('parse_args', res)
        res = explore.prod(lambda: gen_cli(tier), eval_cli, seed=seed, bound={'real_processes': True})
        run.add_part('real_cli', res)
    finally:
        pass
    run.rule = ('all vectors of up to n units over %d units (flags, clusters, options with hostile values, markers in every '
                'spelling, forwarded look-alikes) with at most two markers; non-trivial = accepted vector containing a marker; '
                'plus a slice through the real command line (real child echoing argv, real gdb -batch)' % len(UNITS))
    run.bound = {'units_per_vector': 3 if tier == 'quick' else 4}
    run.assumptions = ['clusters containing a marker letter that is not last are expected to be rejected',
                       'GDB executes `python <code>` up to the end of the line (observed with the installed GDB 13.1 in the cli part)']


def replay(case):
    sut.bind()
    setup_scratch()
    try:
        if 'cli' in case:
            return eval_cli(case).viols
        return evaluate(case).viols
    finally:
        pass
