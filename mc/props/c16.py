"""C16 - displayed times are the log's times relative to the first message; gap
separators between shown messages more than one second apart, and nowhere else.

PROD engine: logs of n messages whose consecutive gaps come from a microsecond
lattice around the one-second threshold x visibility pattern (filter) x constant
time shift x decimal mark x {live view, list} x {one, two connections}; oracle =
exact integer arithmetic on microseconds."""
import itertools
import traceback

from .. import sut, explore, outparse
from ..explore import Eval
from ..report import Violation
from ..ref import wlprint

GAPS_US = [0, 400000, 999999, 1000000, 1000001, 1200000, 2500000]
# a line stamped slightly before its predecessor (two threads, one stderr), well before it (the 32-bit stamp wrapped, or a
# second process flushed late), and more than half the stamp's period after it
GAPS_EXTRA_US = [-3000, 0, 999999, 1000001, 2500000, -2500000, 2200000000]
EXTRAS = ['plain', 'discarded_first', 'chatter_first', 'quoted']
SHIFTS_QUICK = [0, 1000000000, 492063955, 3261636706]
SHIFTS_THOROUGH = SHIFTS_QUICK + [1, 2693726254, 10 ** 12, 4294967290000, 770203519, 999999999]
TOL = 1e-4 + 1e-9     # one unit of the last displayed digit


def _m(t, sent, iface, oid, name, args, conn=None):
    return {'t_us': t, 'sent': sent, 'iface': iface, 'id': oid, 'name': name, 'args': args, 'queue': None, 'conn': conn}


def build_log(case):
    """-> (lines, [(t_us, shown_by_filter)]) ; message i is on zz_s (shown) or zz_h (hidden)."""
    t0 = case['shift']
    two = case['conns'] == 2
    d = case['dialect']
    tag = (lambda k: str(k)) if two else (lambda k: None)
    msgs = []
    pre_shown = case['prelude_shown']
    conns = [1, 2] if two else [1]
    late = case.get('late_second')      # the second connection starts later: its first lines come with its first message
    for c in conns[:1] if late else conns:
        msgs.append((_m(t0, True, 'wl_display', 1, 'get_registry', [['new', 'wl_registry', 2]], tag(c)), False))
        msgs.append((_m(t0, True, 'wl_registry', 2, 'bind', [['int', 1], ['str', 'zz_s'], ['int', 1], ['new', None, 3]], tag(c)), pre_shown))
        msgs.append((_m(t0, True, 'wl_registry', 2, 'bind', [['int', 2], ['str', 'zz_h'], ['int', 1], ['new', None, 4]], tag(c)), False))
    extra = case.get('extra')
    if extra == 'quoted':
        # a received message whose string argument holds a line of another log: its own time stamp counts, not the quoted one
        inner = wlprint.render(_m(t0 + 5000000, True, 'wl_surface', 7, 'commit', [], None), d)
        msgs.append((_m(t0 + 300000, False, 'wl_display', 1, 'error', [['nil'], ['int', 3], ['str', inner]], tag(1)), False))
    t = t0
    for i, (g, vis) in enumerate(zip(case['gaps'], case['visible'])):
        t += g
        c = conns[i % len(conns)]
        if late and c == 2:
            late = False
            msgs.append((_m(t, True, 'wl_display', 1, 'get_registry', [['new', 'wl_registry', 2]], tag(c)), False))
            msgs.append((_m(t, True, 'wl_registry', 2, 'bind', [['int', 1], ['str', 'zz_s'], ['int', 1], ['new', None, 3]], tag(c)), pre_shown))
            msgs.append((_m(t, True, 'wl_registry', 2, 'bind', [['int', 2], ['str', 'zz_h'], ['int', 1], ['new', None, 4]], tag(c)), False))
        if vis:
            msgs.append((_m(t, True, 'zz_s', 3, 'poke', [['int', i]], tag(c)), True))
        else:
            msgs.append((_m(t, True, 'zz_h', 4, 'poke', [['int', i]], tag(c)), False))
    lines = [wlprint.render(m, d) for m, _ in msgs]
    return lines, [(m['t_us'], v) for m, v in msgs]


def leading_lines(case):
    """Lines that are not messages, with a time stamp of their own, before the first message: the time base is the
    first message processed, not the first time stamp seen."""
    extra = case.get('extra')
    if extra not in ('discarded_first', 'chatter_first'):
        return []
    stamp = wlprint.render(_m(case['shift'] - 500000, False, 'wl_callback', 3, 'done', [['int', 5421]], None), case['dialect']).split(']')[0] + ']'
    if extra == 'discarded_first':
        return [stamp + ' {Default Queue} discarded wl_callback#3.done(5421)']
    return [stamp + ' starting up, not a message']


def filter_text(case):
    # bind of zz_s carries the string "zz_s"; both spellings have hand-known denotations
    return 'zz_s.poke, wl_registry.bind("zz_s")' if case['prelude_shown'] else 'zz_s.poke'


def check_view(out_lines, expected, t0, case, V, where):
    """out_lines: the lines of the live view or of one listing; expected: [t_us] of the
    messages that must be shown, in order."""
    seq = []
    for l in out_lines:
        c, r = outparse.classify(l)
        if c == 'message':
            seq.append(('m', r))
        elif c == 'separator':
            seq.append(('s', r))
    shown = [r for k, r in seq if k == 'm']
    if len(shown) != len(expected):
        V.append(Violation('times.selection', case, {'where': where, 'expected': len(expected), 'observed': [r['text'] for r in shown]}))
        return
    for r, t in zip(shown, expected):
        want = (t - t0) / 1e6
        tol = 10 ** -len(r['time'].split('.')[1]) + 1e-9       # one unit of the last displayed digit
        if abs(float(r['time']) - want) > tol:
            V.append(Violation('times.value', case, {'where': where, 'expected': '%.4f' % want, 'observed': r['time'], 'line': r['text']}))
    # separators: exactly between consecutive shown messages whose gap exceeds one second
    i = -1
    seps = {}
    for k, r in seq:
        if k == 'm':
            i += 1
        else:
            seps.setdefault(i, []).append(r)
    for j in range(-1, len(expected)):
        got = seps.get(j, [])
        gap = None if j < 0 or j + 1 >= len(expected) else expected[j + 1] - expected[j]
        want = gap is not None and gap > 1000000
        if gap is not None and gap < -1000000:
            continue      # whether two messages whose times run backwards by more than a second are "apart" is not specified
        if want and len(got) != 1:
            V.append(Violation('separator.missing', case, {'where': where, 'after_shown_index': j, 'gap_us': gap, 'observed': got}))
        elif not want and got:
            V.append(Violation('separator.spurious', case, {'where': where, 'after_shown_index': j, 'gap_us': gap, 'observed': got}))
        elif want and abs(float(got[0]['gap']) - gap / 1e6) > 10 ** -len(got[0]['gap'].split('.')[1]) + 1e-9:
            V.append(Violation('separator.value', case, {'where': where, 'gap_us': gap, 'observed': got[0]['gap']}))


def evaluate(case):
    V = []
    try:
        lines, meta = build_log(case)
        t0 = meta[0][0]
        expected = [t for t, v in meta if v]
        if case['view'] == 'live':
            s = sut.Session(filt=filter_text(case), stop=case.get('stop'))
            out = []
            for l in leading_lines(case):
                s.feed_line(l)
            for k, l in enumerate(lines):
                if case.get('empty_listings') and k:
                    # between two live messages the user asks for listings that show nothing (GDB mode, program halted):
                    # the two messages are still shown one after the other
                    s.cmd('list zz_no_such_interface')
                    s.cmd('list [')
                o, e = s.feed_line(l)
                out += o
            check_view(out, expected, t0, case, V, 'live')
            if case.get('then_list'):
                # listings after a filtered live view: the live view's last time must not leak into a listing
                # (a separator belongs between two messages of one listing, never under its header)
                hidden = [t for (t, v), l in zip(meta, lines) if not v and '.poke(' in l]
                o, e = s.cmd('list zz_h.poke')
                check_view(o, hidden, t0, case, V, 'list after live')
                o, e = s.cmd('list *')
                check_view(o, [t for t, _ in meta], t0, case, V, 'list * after live')
                o, e = s.cmd('list ' + filter_text(case))
                check_view(o, expected, t0, case, V, 'list of the live filter')
        else:
            s = sut.Session()
            for l in leading_lines(case) + lines:
                s.feed_line(l)
            o, e = s.cmd('list ' + filter_text(case))
            check_view(o, expected, t0, case, V, 'list')
            o2, e2 = s.cmd('list ' + filter_text(case))
            if o2 != o:
                V.append(Violation('times.repeat_listing', case, {'first': o, 'second': o2}))
            # every message, unfiltered: times of hidden ones too
            o3, _ = s.cmd('list *')
            check_view(o3, [t for t, _ in meta], t0, case, V, 'list *')
    except Exception:
        V.append(sut.exc_violation(case))
    near = any(g in (999999, 1000000, 1000001) for g in case['gaps'])
    return Eval(V, outcome=[case['gaps'], case['visible'], len(V)], nontrivial=near and not all(case['visible']),
                transitions=len(case['gaps']) + 3)


def gen_cases(tier):
    n = 3 if tier == 'quick' else 4
    shifts = SHIFTS_QUICK if tier == 'quick' else SHIFTS_THOROUGH
    for gaps in itertools.product(GAPS_US, repeat=n):
        for vis in itertools.product((True, False), repeat=n):
            for shift in shifts:
                for dialect in ('mid', 'oldc'):
                    for view in ('live', 'list'):
                        yield {'gaps': list(gaps), 'visible': list(vis), 'shift': shift, 'dialect': dialect,
                               'view': view, 'conns': 1, 'prelude_shown': False}
    for gaps in itertools.product(GAPS_US, repeat=n):
        for vis in itertools.product((True, False), repeat=n):
            for shift in shifts[:2]:
                yield {'gaps': list(gaps), 'visible': list(vis), 'shift': shift, 'dialect': 'mid',
                       'view': 'live', 'conns': 1, 'prelude_shown': False, 'then_list': True}
    for gaps in itertools.product(GAPS_US, repeat=n):
        for vis in itertools.product((True, False), repeat=n):
            yield {'gaps': list(gaps), 'visible': list(vis), 'shift': shifts[1], 'dialect': 'mid', 'view': 'live', 'conns': 1,
                   'prelude_shown': False, 'stop': 'zz_s.poke(1)'}
            yield {'gaps': list(gaps), 'visible': list(vis), 'shift': shifts[2], 'dialect': 'mid', 'view': 'live', 'conns': 1,
                   'prelude_shown': False, 'stop': 'zz_h', 'then_list': True}
    # lines that carry a time stamp without being the message it belongs to; times that run backwards by a little
    for extra in EXTRAS:
        for gaps in itertools.product(GAPS_EXTRA_US, repeat=n - 1):
            for vis in itertools.product((True, False), repeat=n - 1):
                for shift in (shifts[1], shifts[3]):
                    for view in ('live', 'list'):
                        yield {'gaps': list(gaps), 'visible': list(vis), 'shift': shift, 'dialect': 'cur' if extra != 'chatter_first' else 'oldc',
                               'view': view, 'conns': 1, 'prelude_shown': False, 'extra': extra, 'then_list': view == 'live'}
                    if extra == 'plain':
                        yield {'gaps': list(gaps), 'visible': list(vis), 'shift': shift, 'dialect': 'mid', 'view': 'live', 'conns': 1,
                               'prelude_shown': False, 'extra': extra, 'empty_listings': True}
    # two connections (tags need the current dialect) and a shown prelude, on a reduced gap set
    for gaps in itertools.product(GAPS_US, repeat=n):
        for vis in itertools.product((True, False), repeat=n):
            for shift in shifts[:3]:
                for view in ('live', 'list'):
                    yield {'gaps': list(gaps), 'visible': list(vis), 'shift': shift, 'dialect': 'cur',
                           'view': view, 'conns': 2, 'prelude_shown': False}
                    yield {'gaps': list(gaps), 'visible': list(vis), 'shift': shift, 'dialect': 'old',
                           'view': view, 'conns': 1, 'prelude_shown': True}
                if shift == shifts[0]:
                    # the second connection opens only when its first message arrives: a notice between two shown messages
                    yield {'gaps': list(gaps), 'visible': list(vis), 'shift': shift, 'dialect': 'cur',
                           'view': 'live', 'conns': 2, 'prelude_shown': False, 'late_second': True, 'then_list': True}


def gen_shift_sweep(tier):
    """Every constant shift of a dense range: a gap of exactly one second (no separator) followed by a gap of one second and
    a microsecond (separator), at every absolute time of the range - the conversion of the printed milliseconds must not
    lose or gain a microsecond anywhere."""
    n_us, n_ms = (3000, 3000) if tier == 'quick' else (40000, 60000)
    bases = [0, 16611000000] if tier == 'quick' else [0, 16611000000, 4294967000000, 999999000]
    for dialect in ('mid', 'oldc'):
        for base in bases:
            for k in range(n_us):
                yield {'gaps': [1000000, 1000001], 'visible': [True, True], 'shift': base + k, 'dialect': dialect,
                       'view': 'live' if k % 2 else 'list', 'conns': 1, 'prelude_shown': True, 'shift_origin': True}
        for k in range(n_ms):
            yield {'gaps': [1000000, 1000001], 'visible': [True, True], 'shift': 334 + k * 1000, 'dialect': dialect,
                   'view': 'list' if k % 2 else 'live', 'conns': 1, 'prelude_shown': True, 'shift_origin': True}


def run(run, tier, seed):
    sut.bind()
    sut.ensure_protocols()
    res = explore.prod(lambda: gen_cases(tier), evaluate, seed=seed,
                       bound={'messages': 3 if tier == 'quick' else 4, 'gaps_us': GAPS_US,
                              'shifts': len(SHIFTS_QUICK if tier == 'quick' else SHIFTS_THOROUGH)})
    run.add_part('logs', res)
    res2 = explore.prod(lambda: gen_shift_sweep(tier), evaluate, seed=seed,
                        bound={'consecutive_microsecond_shifts': 3000 if tier == 'quick' else 40000,
                               'consecutive_millisecond_shifts': 3000 if tier == 'quick' else 60000})
    run.add_part('shift_sweep', res2)
    run.rule = ('all logs of n messages with consecutive gaps from the lattice %s us x visibility pattern x time shift x '
                'decimal mark x live/list x 1-2 connections; non-trivial = a gap within 1 us of the threshold and a '
                'hidden message' % GAPS_US)
    run.bound = res.bound
    run.assumptions = ['displayed times are compared within one unit of the last displayed digit (as the property allows); '
                       'separator presence is compared exactly (integer microseconds)']


def replay(case):
    sut.bind()
    sut.ensure_protocols()
    return evaluate(case).viols
