"""C02 in GDB mode: the same well-formed histories as the log-mode search, delivered as libwayland closures
through the real plugin on the GDB model (mc/fakegdb) instead of as log lines.  Attribution is a property of the
connection's object table whatever the front door; the GDB door has its own ways of getting it wrong (the declared
interface of an argument is read from the closure's types array, by position).

Runs in a child interpreter (`python -m mc.props.c02gdb <tier> <seed>`): whether the tool believes it is inside GDB is a
process-wide fact.  The `ment` event is given a richer message here: a number, a mention of the factory (another
interface), a fixed value and only then the object that matters - so that an argument's declared interface depends on
its position among *all* arguments, and the same message name and signature occur with different declared interfaces.
"""
import json
import sys

from .. import sut, explore, outparse
from ..explore import Eval
from ..report import Violation
from ..ref import objtable as ot
from . import histcheck as hc

T = 4000000000


def build(ev, ref, t, server_side):
    msg, exp = ot.build(ev, ref, t, server_side=server_side)
    if ev[0] == 'ment':
        msg['args'] = [['int', 9], ['obj', 'zz_f', ot.FACTORY_ID], ['fixed', 384]] + msg['args']
        exp['args'] = [('int', None), ('obj', ref.label(ot.FACTORY_ID)), ('float', None)] + exp['args']
    return msg, exp


def run_history(hist, variant, check_from=0):
    from .. import gdbenv
    case = {'gdb_history': [list(e) for e in hist], 'variant': variant}
    V = []
    server = bool(variant.get('server_side'))
    ref = ot.RefConn()
    outcome = None
    try:
        env = gdbenv.make_plugin()
        inf = gdbenv.Inferior()
        out, err = env['out'], env['err']
        o_mark, e_mark = len(out.buffer), len(err.buffer)
        evs = hc.prelude_of(variant) + [list(e) for e in hist]
        npre = len(hc.prelude_of(variant))
        for n, ev in enumerate(evs):
            msg, exp = build(ev, ref, T + n * 100, server)
            m = gdbenv.closure_from_print(msg, side='server' if server else 'client', conn=0, thread=1)
            loc = inf.present(m)
            sut.LOG.take()
            bp = env['bps'][loc]
            try:
                ret = bp.stop() if getattr(bp, 'enabled', True) else False
            except Exception:
                V.append(sut.exc_violation(case, 'gdb.escaped', {'step': n - npre, 'event': ev}))
                return V, None
            new_out = sut._lines(out.buffer[o_mark:])
            new_err = sut._lines(err.buffer[e_mark:])
            o_mark, e_mark = len(out.buffer), len(err.buffer)
            logs = [l for l in sut.LOG.take() if l[0] in ('ERROR', 'CRITICAL')]
            if n - npre < check_from:
                continue
            step = {'step': n - npre, 'event': ev}
            recs = [r for c, r in map(outparse.classify, new_out) if c == 'message']
            if len(recs) != 1:
                V.append(Violation('gdb.line.count', case, dict(step, expected=1, observed=new_out, err=new_err)))
                continue
            if new_err or logs:
                V.append(Violation('gdb.log.noise', case, dict(step, err=new_err, log=logs)))
            outcome = recs[0]['text'].split(': ', 1)[-1]
            for what, e, o_ in ot.check_line(recs[0], exp):
                if what in ('lifespan',):
                    continue      # GDB mode stamps messages with its own clock (C03 judges lifespans on logs)
                V.append(Violation('gdb.label.' + what.split(' ')[0].rstrip('0123456789'), case,
                                   dict(step, what=what, expected=e, observed=o_, shown=recs[0]['text'])))
        conns = env['cm'].connections()
        if evs and len(conns) != 1:
            V.append(Violation('gdb.shape.connections', case, {'expected': 1, 'observed': len(conns)}))
        elif evs and not V:
            sub = []
            hc.check_state(conns[0], ref, case, sub)
            V += [Violation('gdb.' + v.kind, case, v.detail) for v in sub if v.kind.split('.')[0] in ('shape', 'alive')]
    except Exception:
        V.append(sut.exc_violation(case))
    return V, outcome


def make_expand(variant):
    def expand(hist):
        ref = hc.ref_after(hist, variant)
        res = []
        for ev in ot.enabled(ref):
            h2 = list(hist) + [ev]
            V, outcome = run_history(h2, variant, check_from=len(hist))
            key = hc.ref_after(h2, variant).key()
            res.append((ev, key, Eval(V, outcome=outcome, nontrivial=hc.nontrivial(h2), transitions=len(h2) + 2)))
        return res
    return expand


def mention_chain(n):
    """Objects of both interfaces created, mentioned, deleted and re-created in turn: the same `ref` message (same name,
    same signature) carries a different declared interface each time."""
    h = []
    for k in range(n):
        t = ot.TYPES[k % 2]
        h += [['creq', 3, t], ['ment', 3], ['cev', ot.SERVER_BASE, ot.TYPES[(k + 1) % 2]], ['ment', ot.SERVER_BASE], ['ment', 3], ['del', 3], ['ment', 3]]
    return h


def child(tier, seed):
    sut.bind(fake_gdb=True)
    sut.ensure_protocols()
    parts = []
    for name, depth in ((('client', 4), ('server', 3)) if tier == 'quick' else (('client', 6), ('server', 5))):
        variant = hc.VARIANTS[name]
        res = explore.bfs(make_expand(variant), depth, seed=seed, bound={'variant': name, 'depth': depth, 'mode': 'gdb'})
        parts.append(('gdb_bfs:' + name, res))
    variant = hc.VARIANTS['client']
    chains = [hc.deep_chain(variant, 40, 30), mention_chain(12)] if tier == 'quick' else [hc.deep_chain(variant, 300, 200), mention_chain(60)]

    def one(h):
        V, outcome = run_history(h, variant)
        return Eval(V, outcome=outcome, nontrivial=True, transitions=len(h))
    res = explore.prod(lambda: iter(chains), one, workers=1, bound={'chains': [len(c) for c in chains]})
    res.samples = [c[:7] + ['...'] for c in chains]
    parts.append(('gdb_chains', res))
    doc = []
    for name, r in parts:
        doc.append({'name': name, 'evaluations': r.evaluations, 'states': r.states, 'transitions': r.transitions, 'validated': r.validated,
                    'nontrivial': r.nontrivial, 'outcomes': r.outcomes, 'exhaustive': r.exhaustive, 'bound': r.bound,
                    'samples': r.samples[:3], 'violations': [[v.kind, v.case, v.detail] for v in r.violations[:12]]})
    print('C02GDB-RESULT ' + json.dumps(doc, default=repr))


def parent_parts(run, tier, seed):
    """Called by C02's run(): start the child, turn its report into parts of this run."""
    import subprocess
    p = subprocess.run([sys.executable, '-m', 'mc.props.c02gdb', tier, str(seed)], capture_output=True, text=True, cwd=sut.VERIF, timeout=3000)
    line = [l for l in p.stdout.split('\n') if l.startswith('C02GDB-RESULT ')]
    if p.returncode != 0 or not line:
        raise explore.HarnessError('GDB-mode child of C02 failed: ' + (p.stderr or p.stdout)[-800:])
    for d in json.loads(line[-1][len('C02GDB-RESULT '):]):
        res = explore.Result()
        for k in ('evaluations', 'states', 'transitions', 'validated', 'nontrivial', 'outcomes', 'exhaustive', 'bound', 'samples'):
            setattr(res, k, d[k])
        res.violations = [Violation(k, c, dt) for k, c, dt in d['violations']]
        run.add_part(d['name'], res)


def replay_child(case):
    sut.bind(fake_gdb=True)
    sut.ensure_protocols()
    V, _ = run_history(case['gdb_history'], case['variant'])
    print('C02GDB-REPLAY ' + json.dumps([[v.kind, v.case, v.detail] for v in V], default=repr))


def replay(case):
    import subprocess
    p = subprocess.run([sys.executable, '-m', 'mc.props.c02gdb', '--replay', json.dumps(case)], capture_output=True, text=True,
                       cwd=sut.VERIF, timeout=600)
    line = [l for l in p.stdout.split('\n') if l.startswith('C02GDB-REPLAY ')]
    if not line:
        raise explore.HarnessError('GDB-mode replay child failed: ' + (p.stderr or p.stdout)[-800:])
    return [Violation(k, c, d) for k, c, d in json.loads(line[-1][len('C02GDB-REPLAY '):])]


if __name__ == '__main__':
    if sys.argv[1] == '--replay':
        replay_child(json.loads(sys.argv[2]))
    else:
        child(sys.argv[1], int(sys.argv[2]))
