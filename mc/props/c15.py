"""C15 - GDB mode follows libwayland's connections as they come and go.

BFS over plugin event histories on the fake gdb: messages on two connection addresses
from two threads (first message of an instance: get_registry sent / received / none),
destructions of known, already closed and never-seen connections, address reuse.
Oracle: reference connection registry + reference object table per connection
instance; nothing may escape the breakpoints' stop() methods, which return False."""
from .. import sut, explore, outparse
from ..explore import Eval
from ..report import Violation
from ..ref import objtable as ot, letters

SCRIPT = [['creq', 3, 'wl_callback'], ['del', 3], ['creq', 3, 'wl_callback'], ['use', 3], ['del', 3]]
# connections that begin with get_registry bind id 3 instead - to different interfaces, in a different order from one
# connection to the next (what one connection bound an id to says nothing about another connection)
BIND_SCRIPTS = [[['bind', 3, 'zz_b'], ['use', 3], ['del', 3], ['bind', 3, 'zz_c'], ['use', 3]],
                [['bind', 3, 'zz_c'], ['use', 3], ['del', 3], ['bind', 3, 'zz_b'], ['use', 3]]]
CONNS = (0, 1)
THREADS = (1, 2)
DESTROY = (0, 1, 2)
T = 4000000000


class Registry:
    def __init__(self):
        self.instances = []
        self.open = {}
        self.realloced = set()

    def key(self):
        return [[i['role'], i['open'], i['pos'], i['thread'], i['greg']] for i in self.instances] + [sorted(self.open.items()), sorted(self.realloced)]

    def enabled(self):
        evs = []
        for c in CONNS:
            inst = self.instances[self.open[c]] if c in self.open else None
            for t in THREADS:
                if inst is None:
                    evs.append(['msg', c, t, 'greg_sent'])
                    evs.append(['msg', c, t, 'greg_recv'])
                if inst is None or inst['pos'] < len(SCRIPT):
                    evs.append(['msg', c, t, 'next'])
                if inst is not None or t == 1:
                    evs.append(['msg', c, t, 'orphan'])
                if inst is not None and not inst['greg'] and inst['pos'] <= 2 and t == 1:
                    evs.append(['msg', c, t, 'greg_late'])       # a client that syncs before it asks for the registry
        for c in CONNS:
            if c not in self.open and c not in self.realloced:
                evs.append(['realloc', c])
        for c in DESTROY:
            evs.append(['destroy', c])
        return evs


def role_word(r):
    return {None: 'unknown type', True: 'server', False: 'client'}[r]


def run_hist(hist, check_from=0):
    import gdb
    from .. import gdbenv
    case = {'history': [list(e) for e in hist]}
    V = []
    reg = Registry()
    try:
        env = gdbenv.make_plugin()
        inf = gdbenv.Inferior()
        out, err = env['out'], env['err']
        o_mark, e_mark = len(out.buffer), len(err.buffer)      # whatever the plugin says when it starts is not about an event
        dead = False
        for n, ev in enumerate(hist):
            want_out = []
            warn_ok = False
            if ev[0] == 'realloc':
                # after its connection was destroyed the program connects again: new wl_connection, same display/client
                inf.realloc(ev[1])
                reg.realloced.add(ev[1])
                continue
            if ev[0] == 'destroy':
                c = ev[1]
                if c in reg.open:
                    inst = reg.instances[reg.open.pop(c)]
                    inst['open'] = False
                    want_out.append('Closed %s connection %s' % (role_word(inst['role']), inst['name']))
                loc = inf.present_destroy(c, thread=1)
            else:
                _, c, t, kind = ev
                if c not in reg.open:
                    role = {'greg_sent': False, 'greg_recv': True, 'next': None, 'orphan': None, 'greg_late': False}[kind]
                    inst = {'name': letters.word(len(reg.instances), caps=True), 'role': role, 'open': True, 'pos': 0,
                            'ref': ot.RefConn(), 'thread': t, 'greg': kind != 'next',
                            'script': BIND_SCRIPTS[len(reg.instances) % 2] if kind in ('greg_sent', 'greg_recv') else SCRIPT}
                    if len(reg.instances) % 2:
                        inst['ref'].registry_id = 4       # a registry need not have id 2 (a toolkit's second get_registry)
                    reg.open[c] = len(reg.instances)
                    reg.instances.append(inst)
                    want_out.append('New %s connection %s' % (role_word(role), inst['name']))
                inst = reg.instances[reg.open[c]]
                if kind == 'orphan':
                    # the target's creation was never seen (the debugger attached late): shown unresolved, tolerated
                    server = bool(inst['role'])
                    msg = {'t_us': T + n * 100, 'sent': server, 'iface': 'zz_q', 'id': 77, 'name': 'foo', 'args': [['int', 1]], 'queue': None, 'conn': None}
                    m = gdbenv.closure_from_print(msg, side='server' if server else 'client', conn=c, thread=t)
                    loc = inf.present(m)
                    inst['ref'].nmsg += 1
                    want_out.append(('orphan', inst['name'], None))
                    warn_ok = inst['role'] is not False and t != inst['thread']
                else:
                    if kind == 'next':
                        sev = inst['script'][inst['pos']]
                        inst['pos'] += 1
                    else:
                        sev = ['get_registry']
                        inst['greg'] = True
                    server = bool(inst['role'])
                    msg, exp = ot.build(sev, inst['ref'], T + n * 100, server_side=server)
                    m = gdbenv.closure_from_print(msg, side='server' if server else 'client', conn=c, thread=t)
                    loc = inf.present(m)
                    want_out.append(('message', inst['name'], exp))
                    warn_ok = inst['role'] is not False and t != inst['thread']
            if dead:
                continue       # the implementation already failed: only the reference is advanced, so that it stays complete
            sut.LOG.take()
            try:
                bp = env['bps'][loc]
                # GDB does not call stop() of a disabled breakpoint
                ret = bp.stop() if getattr(bp, 'enabled', True) else False
                exc = None
            except Exception:
                v = sut.exc_violation(case, 'connections.escaped', {'step': n, 'event': ev})
                V.append(v)
                dead = True
                continue
            new_out = sut._lines(out.buffer[o_mark:])
            new_err = sut._lines(err.buffer[e_mark:])
            o_mark, e_mark = len(out.buffer), len(err.buffer)
            logs = sut.LOG.take()
            if n < check_from:
                continue
            step = {'step': n, 'event': ev}
            if ret is not False:
                V.append(Violation('connections.halted', case, dict(step, returned=ret)))
            errs = [l for l in new_err if not (l.startswith('Warning:') and warn_ok)]
            is_orphan = ev[0] == 'msg' and ev[3] == 'orphan'
            if errs or [l for l in logs if l[0] in ('ERROR', 'CRITICAL') and not is_orphan]:
                V.append(Violation('connections.error_output', case, dict(step, err=new_err, log=logs)))
            if len(new_out) != len(want_out):
                V.append(Violation('connections.output', case, dict(step, expected=[w if isinstance(w, str) else 'message on ' + w[1] for w in want_out],
                                                                    observed=new_out)))
                continue
            for w, l in zip(want_out, new_out):
                if isinstance(w, str):
                    if not outparse.same_notice(l, w):
                        V.append(Violation('connections.notice', case, dict(step, expected=w, observed=l)))
                elif w[0] == 'orphan':
                    if outparse.classify(l)[0] != 'message' or '@77' not in l or '.foo(' not in l:
                        V.append(Violation('connections.orphan_not_shown', case, dict(step, observed=l)))
                else:
                    cl, r = outparse.classify(l)
                    if cl != 'message' or r['conn'] != w[1]:
                        V.append(Violation('connections.attribution', case, dict(step, expected=w[1], observed=l)))
                        continue
                    for what, e, o_ in ot.check_line(r, w[2]):
                        if what == 'lifespan':
                            continue     # GDB mode stamps messages with the wall clock, not with log times (C03 judges lifespans)
                        V.append(Violation('connections.' + what.split(' ')[0].rstrip('0123456789'), case,
                                           dict(step, what=what, expected=e, observed=o_, shown=l)))
        if not V and not dead:
            conns = env['cm'].connections()
            got = [(c.name(), c.is_server(), c.is_open(), len(c.messages())) for c in conns]
            want = [(i['name'], i['role'], i['open'], i['ref'].nmsg) for i in reg.instances]
            if got != want:
                V.append(Violation('connections.listing', case, {'expected': want, 'observed': got}))
            else:
                # merged on the reference registry: every connection's object table must equal the reference
                from . import histcheck as hc
                for c, i in zip(conns, reg.instances):
                    sub = []
                    hc.check_state(c, i['ref'], case, sub)
                    for v in sub:
                        V.append(Violation('connections.' + v.kind, case, dict(v.detail, connection=i['name'])))
    except Exception:
        V.append(sut.exc_violation(case))
    return V, reg


def long_history(n):
    """One connection stays open while n short-lived ones come and go at another address."""
    h = [['msg', 0, 1, 'greg_sent'], ['msg', 0, 1, 'next']]
    for _ in range(n):
        h += [['msg', 1, 1, 'greg_sent'], ['destroy', 1]]
    h += [['msg', 0, 1, 'next'], ['msg', 1, 1, 'greg_recv'], ['msg', 0, 1, 'next']]
    return h


def expand(hist):
    _, reg = run_hist(hist, check_from=len(hist))
    out = []
    for ev in reg.enabled():
        h2 = list(hist) + [ev]
        V, reg2 = run_hist(h2, check_from=len(hist))
        reopened = len(reg2.instances) > len({e[1] for e in h2 if e[0] == 'msg'})
        out.append((ev, reg2.key(), Eval(V, outcome=reg2.key(), nontrivial=reopened or any(e[0] == 'destroy' for e in h2),
                                         transitions=len(h2))))
    return out


def replay_scripts():
    """Event scripts for the real-GDB replay (single thread; depth-4 histories, batched with
    disjoint connection indexes so that histories do not interfere)."""
    from .. import gdbenv
    hists = [[]]
    frontier = [[]]
    for d in range(4):
        nxt = []
        for h in frontier:
            _, reg = run_hist(h, check_from=len(h))
            for ev in reg.enabled():
                if (ev[0] == 'msg' and (ev[2] != 1 or ev[3] == 'greg_late')) or ev[0] == 'realloc':
                    continue
                nxt.append(h + [ev])
        # keep the search small: one representative per registry key
        seen, frontier = set(), []
        for h in nxt:
            _, reg = run_hist(h, check_from=len(h))
            k = explore.h64(reg.key())
            if k not in seen:
                seen.add(k)
                frontier.append(h)
        hists += frontier
    batch = []
    base = 0
    for h in hists:
        if base + 3 > 60:
            yield 'c15_histories_%d' % len(batch), batch
            batch, base = [], 0
        reg_open = {}
        insts = []
        for n, ev in enumerate(h):
            if ev[0] == 'destroy':
                reg_open.pop(ev[1], None)
                batch.append(['destroy', base + ev[1]])
            else:
                _, c, t, kind = ev
                if c not in reg_open:
                    insts.append({'role': {'greg_sent': False, 'greg_recv': True, 'next': None, 'orphan': None}[kind], 'pos': 0, 'ref': ot.RefConn(),
                                  'script': BIND_SCRIPTS[len(insts) % 2] if kind in ('greg_sent', 'greg_recv') else SCRIPT})
                    if (len(insts) - 1) % 2:
                        insts[-1]['ref'].registry_id = 4
                    reg_open[c] = len(insts) - 1
                inst = insts[reg_open[c]]
                server = bool(inst['role'])
                if kind == 'orphan':
                    msg = {'t_us': T + n * 100, 'sent': server, 'iface': 'zz_q', 'id': 77, 'name': 'foo', 'args': [['int', 1]],
                           'queue': None, 'conn': None}
                else:
                    sev = ['get_registry'] if kind != 'next' else inst['script'][inst['pos']]
                    if kind == 'next':
                        inst['pos'] += 1
                    msg, _ = ot.build(sev, inst['ref'], T + n * 100, server_side=server)
                batch.append(gdbenv.closure_from_print(msg, side='server' if server else 'client', conn=base + c))
        base += 3
    if batch:
        yield 'c15_histories_last', batch


def run(run, tier, seed):
    sut.bind(fake_gdb=True)
    sut.ensure_protocols()
    depth = 5 if tier == 'quick' else 7
    res = explore.bfs(expand, depth, seed=seed, bound={'depth': depth, 'addresses': 2, 'threads': 2, 'destroy_targets': 3})
    run.add_part('plugin_bfs', res)
    # pure depth, no merging: the plugin may keep state the reference registry does not have (a disabled
    # breakpoint, a cache), which merging on the reference state would hide
    d_un = 3 if tier == 'quick' else 4
    res = explore.bfs(expand, d_un, seed=seed, merge=False, bound={'depth': d_un, 'merged': False})
    run.add_part('plugin_bfs_unmerged', res)
    n_long = 1010 if tier == 'quick' else 3000      # past the 1000th connection name (ALL), past 64 closed connections
    res = explore.prod(lambda: iter([{'history': long_history(n_long)}]), lambda c: Eval(run_hist(c['history'])[0], nontrivial=True, transitions=len(c['history'])),
                       workers=1, bound={'short_lived_connections': n_long})
    res.samples = [{'long_history': n_long}]
    run.add_part('long_session', res)
    if tier == 'thorough':
        from .. import gdbreplay
        run.parts_in_child(lambda r: gdbreplay.replay_part(r, 'C15'))
    run.rule = ('BFS over plugin events {message(conn in 2, thread in 2, first message get_registry sent/received/none), '
                'destroy(conn in 3)} merged on the reference registry; non-trivial = a destruction or an address opened again')
    run.bound = {'depth': depth}
    run.assumptions = ['GDB API model bound to the real GDB by replay (thorough tier)',
                       'a warning on the error stream is tolerated for a message arriving on another thread']


def replay(case):
    sut.bind(fake_gdb=True)
    sut.ensure_protocols()
    return run_hist(case['history'])[0]
