"""C09 - GDB mode reports each libwayland closure faithfully, as log mode would.

PROD engine on the fake gdb (ctypes memory, mc/fakegdb/gdb.py): closures for every
signature of length <=2 / <=3 over the eight type codes (+ `?` markers, version
digits), every kind at every position up to 20 arguments, the full table
array(len 0..3) at position i x every kind at position j > i, value lattices, on
client and server side, received via invoke / dispatch and sent via send / queue.
Oracle (a) faithfulness against the reference reading of the closure, (b) cross-mode
against the printer model decoded by the real log parser, (c) resolved labels of
scenario histories in both modes.  Thorough: a subset replayed in the real GDB."""
import itertools

from .. import sut, explore
from ..explore import Eval
from ..report import Violation
from ..ref import wlprint

REPS = {
    'i': ['int', -7], 'u': ['uint', 4000000000], 'f': ['fixed', 384], 's': ['str', 'a, b'], 'o': ['obj', 'zz_o', 5],
    'n': ['new', 'zz_n', 6], 'a': ['array', [69, 420]], 'h': ['fd', 9],
}
ALT = [['nil', 'zz_o'], ['nil', None], ['obj', None, 7], ['new', None, 8], ['str', None], ['str', ''], ['array', []],
       ['array', [1, 2, 3]], ['int', 0], ['fixed', -1]]
LATTICE = {
    'int': [0, 1, -1, 2 ** 31 - 1, -2 ** 31, 255, 256, -256, 65536],
    'uint': [0, 1, 2 ** 31 - 1, 2 ** 31, 2 ** 32 - 1, 0xff000000],
    'fixed': [0, 256, 128, -256, 1, -1, 109025, 2 ** 31 - 1, -2 ** 31, 255, -255, 384, -384, 25600000,
              16777217, -16777217, 2 ** 30 + 1, 0x12345679],      # more than 24 significant bits (a C float has 24)
    'str': ['a', '', 'a, b', 'two words', 'é', '"quoted"', 'x' * 300, None],
    'fd': [0, 1, 9, 1023],
    'array': [[], [0], [1], [-1, 2 ** 31 - 1], [1, 2, 3], [1, 2, 3, 4], list(range(10)), list(range(256)), list(range(257)),
              list(range(1000))],      # a message holds just under 4096 bytes
    'obj': [['obj', 'zz_o', 1], ['obj', 'zz_o', 0xff000000], ['obj', None, 3], ['nil', 'zz_o'], ['nil', None]],
    'new': [['new', 'zz_n', 2], ['new', None, 2], ['new', 'zz_n', 0xff000000], ['new', 'wl_callback', 4294967295]],
}
WAYS = [('client', False, 'invoke'), ('client', False, 'dispatch'), ('server', False, 'invoke'), ('server', False, 'dispatch'),
        ('client', True, 'send'), ('server', True, 'queue'), ('client', True, 'queue'), ('server', True, 'send')]


def mk(args, way, sig=None, conn=0):
    from .. import gdbenv
    side, sent, via = way
    return {'sent': sent, 'side': side, 'via': via, 'conn': conn, 'thread': 1, 'iface': 'zz_t', 'id': 12, 'name': 'msg',
            'sig': sig if sig is not None else gdbenv.signature_of(args), 'args': args}


def gen_cases(tier):
    maxlen = 2 if tier == 'quick' else 3
    ways = WAYS[:6] if tier == 'quick' else WAYS
    codes = 'iufsonah'
    # all signatures to maxlen
    for L in range(0, maxlen + 1):
        for sig in itertools.product(codes, repeat=L):
            for w in ways:
                yield mk([REPS[c] for c in sig], w)
    # received closures of a process that is client and server at once, the other side's dispatcher further out
    for sig in itertools.product(codes, repeat=2):
        for w in WAYS[:4]:
            yield dict(mk([REPS[c] for c in sig], w), nested=True)
    # alternative values (nil, untyped, NULL string, empty array) in first and second position
    for a in ALT:
        for c in codes:
            for w in ways[:4] + ways[4:5]:
                yield mk([a, REPS[c]], w)
                yield mk([REPS[c], a], w)
    # value lattices in isolation and after another argument
    for kind, vals in LATTICE.items():
        for v in vals:
            a = v if isinstance(v, list) and v and isinstance(v[0], str) else [kind, v]
            for w in (WAYS[0], WAYS[2], WAYS[4]):
                yield mk([a], w)
                yield mk([['uint', 1], a, ['uint', 99]], w)
    # every kind at every position up to 20 arguments
    kinds = [REPS[c] for c in codes] + [['nil', 'zz_o']]
    for n in range(1, 21):
        for pos in range(n):
            for k in kinds:
                args = [['uint', 1000 + i] for i in range(n)]
                args[pos] = k
                yield mk(args, WAYS[(n + pos) % 4])
                if tier != 'quick':
                    yield mk(args, WAYS[4 + (n + pos) % 2])
    # array(len 0..3) at position i x every kind at position j > i, i, j < 6
    for alen in range(0, 5):
        for i in range(0, 6):
            for j in range(i + 1, 6):
                for k in kinds:
                    args = [['uint', 1000 + x] for x in range(j + 1)]
                    args[i] = ['array', list(range(7, 7 + alen))]
                    args[j] = k
                    for w in (WAYS[0], WAYS[2], WAYS[4]):
                        yield mk(args, w)
    # pairs: a closure decoded right after another closure of the same message name and signature but different
    # declared types / side / values, from a freshly loaded extractor (state carried from one closure to the next)
    pool = []
    for sig_args in ([['obj', 'zz_o', 5]], [['obj', 'zz_p', 5]], [['obj', None, 5]], [['nil', 'zz_o']], [['nil', 'zz_p']], [['nil', None]],
                     [['new', 'zz_n', 6]], [['new', 'zz_m', 6]], [['new', None, 6]],
                     [['uint', 1], ['obj', 'zz_o', 5]], [['uint', 1], ['obj', 'zz_p', 7]], [['uint', 1], ['new', 'zz_m', 8]],
                     [['fixed', 384]], [['fixed', -320]], [['array', [1, 2]]], [['array', []]], [['str', 'a']], [['str', None]]):
        for w in (WAYS[0], WAYS[2], WAYS[4]):
            pool.append(mk(sig_args, w))
    for m1 in pool:
        for m2 in pool:
            if m1 is not m2 and m1['sig'] == m2['sig']:
                yield {'pair': [m1, m2]}
    # `?` markers and version digits
    from .. import gdbenv
    for sig_args in ([REPS['o'], REPS['u']], [REPS['s'], REPS['o'], REPS['n']], [REPS['u'], ['nil', 'zz_o'], REPS['a'], REPS['h']]):
        n = len(sig_args)
        for opt in itertools.chain.from_iterable(itertools.combinations(range(n), r) for r in range(n + 1)):
            for ver in (None, 1, 2, 7, 12):
                for w in (WAYS[0], WAYS[2], WAYS[4]):
                    yield mk(sig_args, w, sig=gdbenv.signature_of(sig_args, ver, opt))


# ---- reference reading of a closure -------------------------------------------------

def ref_args(m):
    out = []
    for a in m['args']:
        k = a[0]
        if k in ('int', 'uint'):
            out.append(('int', a[1]))
        elif k == 'fixed':
            out.append(('float', a[1] / 256.0))
        elif k == 'str':
            out.append(('str', a[1]))
        elif k == 'nil':
            out.append(('nil', a[1]))
        elif k == 'obj':
            out.append(('obj', a[1], a[2]))
        elif k == 'new':
            out.append(('new', a[1], a[2]))
        elif k == 'array':
            out.append(('array', list(a[1])))
        elif k == 'fd':
            out.append(('fd', a[1]))
    return out


def observed_args(msg):
    out = []
    for a in msg.args:
        n = type(a).__name__
        if n == 'Int':
            out.append(('int', a.value))
        elif n == 'Float':
            out.append(('float', a.value))
        elif n == 'String':
            out.append(('str', a.value))
        elif n == 'Null':
            out.append(('nil', a.type))
        elif n == 'Object':
            out.append(('new' if a.is_new else 'obj', a.obj.type, a.obj.id))
        elif n == 'Fd':
            out.append(('fd', a.value))
        elif n == 'Array':
            vals = None if a.values is None else [(v.value if type(v).__name__ == 'Int' else repr(v)) for v in a.values]
            out.append(('array', vals))
        else:
            out.append((n, getattr(a, 'string', None)))
    return out


def to_print(m):
    """The closure as libwayland's printer sees it."""
    args = []
    for a in m['args']:
        k = a[0]
        if k in ('int', 'uint', 'fixed', 'fd'):
            args.append(['int' if k == 'uint' else k, a[1]])
        elif k == 'str':
            args.append(['str', a[1]] if a[1] is not None else ['nil'])
        elif k == 'nil':
            args.append(['nil'])
        elif k == 'obj':
            args.append(['obj', a[1] or 'zz_actual', a[2]])
        elif k == 'new':
            args.append(['new', a[1], a[2]])
        elif k == 'array':
            args.append(['array', 4 * len(a[1])])
    return {'t_us': 123456789, 'sent': m['sent'], 'iface': m['iface'], 'id': m['id'], 'name': m['name'], 'args': args,
            'queue': None, 'conn': None}


_inf = {}


def inferior():
    from .. import gdbenv
    if 'i' not in _inf:
        _inf['i'] = gdbenv.Inferior()
    inf = _inf['i']
    if len(inf.keep) > 20000:
        del inf.keep[:]
    return inf


def evaluate(m):
    from backends.gdb_plugin import extract
    from backends.libwayland_debug_output import parse
    import gdb
    if 'pair' in m:
        import importlib
        importlib.reload(extract)
        evaluate(m['pair'][0])
        ev = evaluate(m['pair'][1])
        for v in ev.viols:
            v.case = m
        importlib.reload(extract)
        return ev
    V = []
    case = m
    inf = inferior()
    try:
        if hasattr(extract, 'gdb_fast_access_map') and m.get('cold'):
            extract.gdb_fast_access_map.clear()
        inf.present(m)
        if m['sent']:
            cid, msg = extract.sent_message()
        else:
            cid, msg = extract.received_message()
        want = ref_args(m)
        got = observed_args(msg)
        head = {'name': msg.name, 'sent': bool(msg.sent), 'id': msg.obj.id, 'iface': msg.obj.type}
        want_head = {'name': m['name'], 'sent': m['sent'], 'id': m['id'], 'iface': None if m['sent'] else m['iface']}
        if head != want_head:
            V.append(Violation('closure.head', case, {'expected': want_head, 'observed': head}))
        if len(got) != len(want):
            V.append(Violation('closure.arity', case, {'expected': want, 'observed': got}))
        else:
            for i, (w, g) in enumerate(zip(want, got)):
                if w[0] == 'str' and w[1] is None:
                    if g[0] not in ('str', 'nil'):
                        V.append(Violation('closure.arg.str', case, {'position': i, 'expected': 'a null string (string or nil)', 'observed': g}))
                    continue
                if tuple(w) != tuple(g):
                    follows_array = any(x[0] == 'array' and len(x[1]) > 0 for x in m['args'][:i])
                    V.append(Violation('closure.arg.' + w[0] + ('.after_array' if follows_array else ''), case,
                                       {'position': i, 'expected': list(w), 'observed': list(g), 'signature': m['sig']}))
                    break
        want_cid = 'conn%d' % m['conn']
        # (b) cross-mode
        if not V:
            for d in ('mid', 'old'):
                line = wlprint.render(to_print(m), d)
                _, lm = parse.message(line)
                lg = observed_args(lm)
                bad = None
                if lm.name != msg.name or bool(lm.sent) != bool(msg.sent) or lm.obj.id != msg.obj.id or \
                        (not m['sent'] and lm.obj.type != msg.obj.type) or len(lg) != len(got):
                    bad = ('head/arity', [lm.name, lm.sent, lm.obj.id, lm.obj.type, len(lg)])
                else:
                    for i, (a, b, src) in enumerate(zip(lg, got, m['args'])):
                        k = src[0]
                        if k in ('int', 'uint', 'fd'):
                            ok = a == b
                        elif k == 'fixed':
                            ok = a[0] == 'float' and b[0] == 'float' and (abs(a[1] - b[1]) <= 5e-7 if d == 'old' else a[1] == b[1])
                        elif k == 'str':
                            ok = True if src[1] is None else a == b
                        elif k == 'nil':
                            ok = a[0] == 'nil' and b[0] == 'nil'
                        elif k == 'obj':
                            ok = a[0] == b[0] == 'obj' and a[2] == b[2] and (src[1] is None or a[1] == b[1])
                        elif k == 'new':
                            ok = a == b
                        elif k == 'array':
                            ok = a[0] == b[0] == 'array'
                        if not ok:
                            bad = ('arg %d (%s)' % (i, k), [list(a), list(b)])
                            break
                if bad:
                    V.append(Violation('crossmode.' + bad[0].split(' ')[0], case, {'dialect': d, 'line': line, 'what': bad[0],
                                                                                   'log_mode_vs_gdb_mode': bad[1]}))
                    break
    except Exception:
        V.append(sut.exc_violation(case, 'closure.exception'))
    kinds = {a[0] for a in m['args']}
    return Eval(V, outcome=[m['sig'], m['side'], m['sent']], nontrivial=len(kinds) >= 2, transitions=1)


def conn_ids(run):
    """Same connection address -> same id, different address -> different id."""
    from backends.gdb_plugin import extract
    inf = inferior()
    ids = {}
    res = explore.Result()
    for c in (0, 1, 2):
        for w in WAYS[:6]:
            m = mk([REPS['u']], w, conn=c)
            inf.present(m)
            res.evaluations += 1
            try:
                cid, _ = extract.sent_message() if m['sent'] else extract.received_message()
            except Exception:
                res.violations.append(sut.exc_violation({'connection_ids': True}, 'closure.exception', {'connection': c, 'way': list(w)}))
                continue
            ids.setdefault(c, set()).add(cid)
    ok = all(len(v) == 1 for v in ids.values()) and len({next(iter(v)) for v in ids.values()}) == 3
    if not ok:
        res.violations.append(Violation('closure.connection_id', {'connection_ids': True}, {'ids': {k: sorted(v) for k, v in ids.items()}}))
    res.states = res.transitions = res.validated = res.evaluations
    res.nontrivial = res.evaluations
    res.samples = [{'connections': 3, 'ways': 6}]
    run.add_part('connection_ids', res)


def scenario_part(run):
    """(c) the universe history through GDB mode and through log mode: after resolution the
    two modes must print the same connection names, type@id+letters tokens, argument names,
    enum labels and nil types."""
    from .. import gdbenv, outparse
    from ..ref import matchsem as ms
    import gdb
    res = explore.Result()
    msgs = [dict(m, t_us=ms.T0 + n * 100) for n, m in enumerate(ms.UNIVERSE)]
    lines = [wlprint.render(m, 'cur') for m in msgs]
    s = sut.Session()
    log_recs = []
    for l in lines:
        o, _ = s.feed_line(l)
        log_recs.append([outparse.classify(x)[1] for x in o if outparse.classify(x)[0] == 'message'])
    env = gdbenv.make_plugin()
    inf = gdbenv.Inferior()
    gdb_recs = []
    for m in msgs:
        c = gdbenv.closure_from_print(m, side='client', conn=int(m['conn']))
        loc = inf.present(c)
        o0 = len(env['out'].buffer)
        try:
            env['bps'][loc].stop()
        except Exception:
            res.violations.append(sut.exc_violation({'scenario_index': len(gdb_recs)}, 'closure.exception'))
        new = sut._lines(env['out'].buffer[o0:])
        gdb_recs.append([outparse.classify(x)[1] for x in new if outparse.classify(x)[0] == 'message'])

    def essence(r):
        args = []
        for a in r['args']:
            e = [a['name'], a['kind']]
            if a['kind'] in ('obj', 'new'):
                e.append(outparse.label(a))
            elif a['kind'] == 'nil':
                e.append(a['type'])
            elif a['kind'] == 'int':
                e += [a['value'], a.get('labels')]
            elif a['kind'] in ('float', 'str', 'fd'):
                e.append(a['value'])
            args.append(e)
        d = r['destroyed']
        return [r['conn'], r['sent'], outparse.label(r['obj']), r['name'], args, outparse.label(d) if d else None]
    for m, a, b in zip(msgs, log_recs, gdb_recs):
        res.evaluations += 1
        res.transitions += 2
        res.validated += 1
        if len(a) != 1 or len(b) != 1 or essence(a[0]) != essence(b[0]):
            res.violations.append(Violation('crossmode.resolved', {'scenario_index': msgs.index(m)},
                                            {'log_mode': a and a[0]['text'], 'gdb_mode': b and b[0]['text']}))
    res.states = res.evaluations
    res.nontrivial = res.evaluations
    res.samples = [{'universe_messages': len(msgs)}]
    run.add_part('scenario_both_modes', res)


def run(run, tier, seed):
    sut.bind(fake_gdb=True)
    sut.ensure_protocols()
    res = explore.prod(lambda: gen_cases(tier), evaluate, seed=seed,
                       bound={'signature_length': 2 if tier == 'quick' else 3, 'positions': 20, 'array_follower_table': 'len 0..4 x i<j<6 x 9 kinds'})
    run.add_part('closures', res)
    run.parts_in_child(conn_ids)
    run.parts_in_child(scenario_part)
    if tier == 'thorough':
        from .. import gdbreplay
        run.parts_in_child(lambda r: gdbreplay.replay_part(r, 'C09'))
    run.rule = ('closures for all signatures to the bound x one value per kind, alternative values, per-kind value lattices, '
                'every kind at every position to 20, the array x follower table, ?/version placements, x client/server x '
                'invoke/dispatch/send/queue; non-trivial = at least two argument kinds')
    run.bound = res.bound
    run.assumptions = ['the GDB Python API model (mc/fakegdb/gdb.py) is bound to the installed GDB 13.1 by replaying scripts '
                       'through gdbstub in the thorough tier', 'NULL strings: position and arity asserted, kind is a recorded don\'t-care']


def replay(case):
    sut.bind(fake_gdb=True)
    sut.ensure_protocols()
    if case.get('connection_ids'):
        r = explore.Result()

        class _R:
            def add_part(self, n, res):
                r.violations = res.violations
        conn_ids(_R())
        return r.violations
    if 'scenario_index' in case:
        r = explore.Result()

        class _R2:
            def add_part(self, n, res):
                r.violations = [v for v in res.violations if v.case == case]
        scenario_part(_R2())
        return r.violations
    if case.get('gdb_replay'):
        from .. import gdbreplay
        return gdbreplay.replay_case(case)
    return evaluate(case).viols
