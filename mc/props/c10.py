"""C10 - GDB halts the program at a message iff it matches the breakpoint matcher.

BFS over plugin event histories on the fake gdb: incoming messages (matching /
mentioning / non-matching, on two connections) interleaved with user commands issued
through the `wl` command and the `wl<cmd>` subcommands (breakpoint changes, connection
selection, resume, quit, unrelated commands) and GDB's own `continue`.  Oracle: the
reference pause machine + C12's accumulated breakpoint predicate.  Second part: the
interactive prompt of file / run mode (TerminalUI) for every command list to length 4."""
import itertools

from .. import sut, explore, outparse
from ..explore import Eval
from ..report import Violation
from ..ref import matchsem as ms
from . import c12

T = 6000000000
INITIAL_BP = ['!', 'wl_surface']
COMMANDS = ['resume', 'quit', 'help', 'list', 'breakpoint wl_surface', 'breakpoint !', 'connection A', 'connection all',
            'filter wl_pointer', 'breakpoint ! .motion', 'r', 'q', 'connection B', 'connection Z', 'breakpoint [', 'filter *',
            'breakpoint (wl_seat)', 'breakpoint ("wl_seat")', 'breakpoint B: .commit', 'breakpoint B: wl_surface', 'breakpoint *', 'breakpoint wl_*_surface', 'c B']
CMD_REF = {'breakpoint wl_surface': ('wl_surface', ['wl_surface'], []), 'breakpoint !': ('!', 'NONE', None),
           'breakpoint ! .motion': ('! .motion', [], ['.motion']),
           'breakpoint B: .commit': ('B: .commit', ['B: .commit'], []),
           'breakpoint B: wl_surface': ('B: wl_surface', ['B: wl_surface'], []),
           'breakpoint *': ('*', ['*'], []), 'breakpoint wl_*_surface': ('wl_*_surface', ['wl_*_surface'], []),      # connection names are capitals: the text is case sensitive
           # two patterns that print alike (string arguments are printed without quotes) but mean different things
           'breakpoint (wl_seat)': ('(wl_seat)', ['(wl_seat)'], []), 'breakpoint ("wl_seat")': ('("wl_seat")', ['("wl_seat")'], [])}
MSG_KINDS = ['commit', 'motion', 'enter', 'name', 'orphan']
CONNS = ('1', '2', '3')
# every kind on two connections; a third connection (needed to tell "the selected one" from "not the closed one") carries two
# ... and the first program may announce an application id that reads like the name of the second connection
MSGS = [(c, k) for c in ('1', '2') for k in MSG_KINDS] + [('3', 'commit'), ('3', 'motion'), ('1', 'appid'), ('1', 'create')]


def _u(conn, sent, iface, oid, name, args):
    return {'sent': sent, 'iface': iface, 'id': oid, 'name': name, 'args': args, 'queue': None, 'conn': conn}


def prelude(conn):
    return [
        _u(conn, True, 'wl_display', 1, 'get_registry', [['new', 'wl_registry', 2]]),
        _u(conn, True, 'wl_registry', 2, 'bind', [['int', 1], ['str', 'wl_compositor'], ['int', 4], ['new', None, 3]]),
        _u(conn, True, 'wl_compositor', 3, 'create_surface', [['new', 'wl_surface', 4]]),
        _u(conn, True, 'wl_registry', 2, 'bind', [['int', 2], ['str', 'wl_seat'], ['int', 5], ['new', None, 5]]),
        _u(conn, True, 'wl_seat', 5, 'get_pointer', [['new', 'wl_pointer', 6]]),
        _u(conn, True, 'wl_registry', 2, 'bind', [['int', 3], ['str', 'xdg_wm_base'], ['int', 2], ['new', None, 7]]),
        _u(conn, True, 'xdg_wm_base', 7, 'get_xdg_surface', [['new', 'xdg_surface', 8], ['obj', 'wl_surface', 4]]),
        _u(conn, True, 'xdg_surface', 8, 'get_toplevel', [['new', 'xdg_toplevel', 9]]),
    ]


def message_for(conn, kind, nth=0):
    if kind == 'commit':
        return _u(conn, True, 'wl_surface', 4, 'commit', [])
    if kind == 'motion':
        return _u(conn, False, 'wl_pointer', 6, 'motion', [['int', 1], ['fixed', 256], ['fixed', 512]])
    if kind == 'enter':
        return _u(conn, False, 'wl_pointer', 6, 'enter', [['int', 7], ['obj', 'wl_surface', 4], ['fixed', 0], ['fixed', 0]])
    if kind == 'appid':
        return _u(conn, True, 'xdg_toplevel', 9, 'set_app_id', [['str', 'b']])
    if kind == 'create':      # a further surface: what a connection-qualified bare `wl_surface` must not take from another connection
        return _u(conn, True, 'wl_compositor', 3, 'create_surface', [['new', 'wl_surface', 40 + nth]])
    if kind == 'orphan':      # an event on a surface GDB never saw being created (attached late): still a wl_surface message
        return _u(conn, False, 'wl_surface', 99, 'enter', [['nil']])
    return _u(conn, False, 'wl_seat', 5, 'name', [['str', 'wl_seat']])


def bind_closure(m):
    """wl_registry.bind on the wire has signature `usun`; libwayland prints it with an [unknown] new id."""
    from .. import gdbenv
    c = gdbenv.closure_from_print(m, side='client', conn=int(m['conn']))
    return c


class RefPause:
    """halted: GDB has the prompt (initially: before the program is started)."""

    def __init__(self, init_bp):
        self.bp = c12.RefAcc(init_bp)
        self.selection = None
        self.halted = True
        self.quit = False
        self.filter = 'all'      # the output filter must not influence halting, but it is part of the state
        self.impl_bp = None      # the implementation's own printed breakpoint: states that print differently are not merged
        self.closed = set()      # connections libwayland has destroyed
        self.idled = False       # a minute of idleness happened (once per history)
        self.appid = False       # the first connection has announced the application id `b` (part of what a name may refer to)
        # selection: None = all, a name, or '?' once the selected connection itself was destroyed (what is selected then
        # is not specified: nothing about halting is demanded until the user selects again)

    def key(self):
        return [self.bp.key(), self.selection, self.halted, self.quit, self.filter, self.impl_bp, sorted(self.closed), self.appid, self.idled]

    def enabled(self):
        if self.quit:
            return []
        if self.halted:
            return [['cmd', c] for c in COMMANDS] + [['continue']]
        return [['msg', c, k] for c, k in MSGS if c not in self.closed] + [['destroy', c] for c in CONNS if c not in self.closed] + \
            ([] if self.idled else [['idle']])


def run_hist(init_bp, hist, check_from=0):
    import gdb
    from .. import gdbenv
    case = {'init': init_bp, 'history': [list(e) for e in hist]}
    V = []
    ref = RefPause(init_bp)
    try:
        msgs = [m for c in CONNS for m in prelude(c)]
        npre = len(msgs)
        for e in hist:
            if e[0] == 'msg':
                msgs.append(message_for(e[1], e[2], len(msgs)))
        lines, views = ms.build_universe(sut.REPO, msgs)
        env = gdbenv.make_plugin(stop=None if init_bp == '!' else init_bp)
        inf = gdbenv.Inferior()
        out, err = env['out'], env['err']
        k = 0

        def deliver(step, checked):
            nonlocal k
            m = dict(msgs[k], t_us=0)
            c = gdbenv.closure_from_print(m, side='client', conn=int(m['conn']))
            loc = inf.present(c)
            o0, e0 = len(out.buffer), len(err.buffer)
            ret = env['bps'][loc].stop()
            new_out = sut._lines(out.buffer[o0:])
            v = views[k]
            k += 1
            want = ms.and3(ref.bp.selects(v), None if ref.selection == '?' else (ref.selection is None or v.conn == ref.selection))
            stopped = [outparse.classify(l)[1] for l in new_out if outparse.classify(l)[0] == 'stopped']
            if checked and want is not None:
                d = {'step': step, 'message': v.line, 'breakpoint': ref.bp.key(), 'selection': ref.selection,
                     'returned': ret, 'stopped_notices': len(stopped)}
                if bool(ret) != want:
                    V.append(Violation('halt.missed' if want else 'halt.spurious', case, d))
                elif want and (len(stopped) != 1 or stopped[0].get('name') != v.name or
                               (v.obj[2] is not None and
                                outparse.label(stopped[0]['obj']).split('@')[1] != '%d%s' % (v.obj[1], ms.letters.word(v.obj[2])))):
                    V.append(Violation('halt.notice', case, dict(d, out=new_out)))
                elif not want and stopped:
                    V.append(Violation('halt.notice_without_halt', case, dict(d, out=new_out)))
            return bool(ret) if want is None else want
        # the prelude runs with the program started by the user
        ref.halted = False
        for i in range(npre):
            h = deliver(-1, check_from == 0)
            # a halt during the prelude: the user continues
            ref.halted = False
        # the explored history starts at the GDB prompt (the user interrupted the program), so commands are possible
        ref.halted = True
        for n, e in enumerate(hist):
            checked = n >= check_from
            if e[0] == 'msg':
                ref.halted = deliver(n, checked)
                if e[2] == 'appid':
                    ref.appid = True
            elif e[0] == 'continue':
                ref.halted = False
            elif e[0] == 'idle':
                env['clock'][0] += 61.0       # the program sits idle for a minute (GDB mode stamps messages with the wall clock)
                ref.idled = True
            elif e[0] == 'destroy':
                # libwayland destroys the connection: no message, so never a halt - whatever the pause flag still says
                # (the user may have carried on with GDB's own `continue` after the last halt)
                loc = inf.present_destroy(int(e[1]))
                o0 = len(out.buffer)
                ret = env['bps'][loc].stop()
                new_out = sut._lines(out.buffer[o0:])
                stopped = [l for l in new_out if outparse.classify(l)[0] == 'stopped']
                name = ms.letters.word(CONNS.index(e[1]), caps=True)
                ref.closed.add(e[1])
                if ref.selection == name:
                    ref.selection = '?'
                if checked and (ret or stopped):
                    V.append(Violation('halt.at_destroy', case, {'step': n, 'returned': ret, 'out': new_out}))
                ref.halted = bool(ret)
                o0 = len(out.buffer)
                env['ctl'].process_command('connection')
                marked = [cl['name'] for cl in map(outparse.connection_line, sut._lines(out.buffer[o0:])) if cl and cl['selected']]
                if checked and ref.selection != '?' and marked != ([ref.selection] if ref.selection else []):
                    V.append(Violation('halt.selection_state', case, {'step': n, 'event': list(e), 'expected_selected': ref.selection,
                                                                      'listing_marks': marked}))
            else:
                text = e[1]
                x0 = len(gdb._state.executed)
                word, _, arg = text.partition(' ')
                # alternate between the two ways GDB offers the commands
                if n % 2 == 0:
                    env['commands']['wl'].invoke(text, True)
                else:
                    full = [c for c in ('help', 'list', 'filter', 'breakpoint', 'matcher', 'connection', 'resume', 'quit')
                            if c.startswith(word)][0]
                    env['commands']['wl' + full].invoke(arg, True)
                did = gdb._state.executed[x0:]
                is_resume = 'resume'.startswith(word)
                is_quit = 'quit'.startswith(word)
                want_exec = ['quit'] if is_quit else (['continue'] if is_resume else [])
                if checked and did != want_exec:
                    V.append(Violation('halt.command_effect', case, {'step': n, 'command': text, 'gdb_told': did, 'expected': want_exec}))
                if text in CMD_REF:
                    ref.bp.step(CMD_REF[text])
                elif text == 'connection all':
                    ref.selection = None
                elif text in ('connection A', 'connection B', 'c B'):      # `c` is the unique abbreviation of `connection`
                    ref.selection = text.split()[-1]
                elif text == 'filter wl_pointer':
                    ref.filter = 'wl_pointer'
                elif text == 'filter *':
                    ref.filter = 'all'
                if is_quit:
                    ref.quit = True
                elif is_resume:
                    ref.halted = False
                # merging is on the reference state: the implementation's observable state must equal it after every
                # command (selected connection as marked in the listing; breakpoint printed as constant or not)
                o0 = len(out.buffer)
                env['ctl'].process_command('connection')
                obs = sut._lines(out.buffer[o0:])
                o1 = len(out.buffer)
                env['ctl'].process_command('breakpoint')
                marked = [cl['name'] for cl in map(outparse.connection_line, obs) if cl and cl['selected']]
                q = outparse.queried_matcher(sut._lines(out.buffer[o1:]))
                bp_txt = [q] if q is not None else []
                ref.impl_bp = bp_txt[0] if bp_txt else None
                if ref.impl_bp is not None and len(ref.impl_bp) > 4000:
                    ref.impl_bp = 'long:%s:%d' % (explore.h64(ref.impl_bp[:100000]), len(ref.impl_bp))      # keys stay small
                if checked and ref.selection != '?' and marked != ([ref.selection] if ref.selection else []):
                    V.append(Violation('halt.selection_state', case, {'step': n, 'command': text, 'expected_selected': ref.selection,
                                                                      'listing_marks': marked}))
                if checked and bp_txt and (bp_txt[0] in ('*', '!')) != (ref.bp.const is not None):
                    V.append(Violation('halt.breakpoint_state', case, {'step': n, 'command': text, 'printed': bp_txt[0],
                                                                       'reference': ref.bp.key()}))
    except Exception:
        V.append(sut.exc_violation(case))
    return V, ref


def make_expand(init_bp):
    def expand(hist):
        _, ref = run_hist(init_bp, hist, check_from=len(hist))
        out = []
        for ev in ref.enabled():
            h2 = list(hist) + [ev]
            V, ref2 = run_hist(init_bp, h2, check_from=len(hist))
            nt = any(e[0] == 'msg' for e in h2) and any(e[0] == 'cmd' for e in h2)
            out.append((ev, ref2.key(), Eval(V, outcome=ref2.key(), nontrivial=nt, transitions=len(h2) + 10)))
        return out
    return expand


# ---------------------------------------------------------------------------
# the interactive prompt of file and run mode

UI_COMMANDS = ['resume', 'quit', 'help', 'list', 'breakpoint wl_surface', 'connection', 'filter wl_pointer', 'r', 'q', 'zz', '']


def eval_ui(case):
    from frontends.tui import TerminalUI
    V = []
    try:
        s = sut.Session()
        seq = [UI_COMMANDS[i] for i in case['ui']]
        asked = []

        def input_func(prompt):
            asked.append(prompt)
            if len(asked) > len(seq):
                return 'quit'
            return seq[len(asked) - 1]
        ui = TerminalUI(s.ctl, s.ctl, input_func)
        ui.run_until_stopped()
        first = next((i for i, c in enumerate(seq) if c and ('resume'.startswith(c) or 'quit'.startswith(c))), None)
        want = first + 1 if first is not None else len(seq) + 1
        if len(asked) != want:
            V.append(Violation('prompt.count', case, {'commands': seq, 'prompts': len(asked), 'expected': want}))
    except Exception:
        V.append(sut.exc_violation(case))
    return Eval(V, outcome=len(V), nontrivial=len(case['ui']) >= 2, transitions=len(case['ui']) + 1)


def gen_ui(tier):
    n = 3 if tier == 'quick' else 4
    for L in range(0, n + 1):
        for t in itertools.product(range(len(UI_COMMANDS)), repeat=L):
            yield {'ui': list(t)}


def run(run, tier, seed):
    sut.bind(fake_gdb=True)
    sut.ensure_protocols()
    depth = 4 if tier == 'quick' else 7
    for init in INITIAL_BP:
        res = explore.bfs(make_expand(init), depth, seed=seed, bound={'initial_breakpoint': init, 'depth': depth})
        run.add_part('plugin_bfs:' + init, res)
    d_un = 3 if tier == 'quick' else 4
    res = explore.bfs(make_expand('wl_surface'), d_un, seed=seed, merge=False, bound={'initial_breakpoint': 'wl_surface', 'depth': d_un, 'merged': False})
    run.add_part('plugin_bfs_unmerged', res)
    res = explore.prod(lambda: gen_ui(tier), eval_ui, seed=seed, bound={'command_list_length': 3 if tier == 'quick' else 4})
    run.add_part('terminal_ui', res)
    if tier == 'thorough':
        from .. import gdbreplay
        run.parts_in_child(gdbreplay.replay_c10)
    run.rule = ('BFS over {messages: commit/motion/enter/name x 2 connections while running; %d commands via wl / wl<cmd> and '
                'continue while halted} from 2 initial breakpoints, merged on (reference breakpoint, selection, halted, quit); '
                'prompt loop: all command lists to the bound; non-trivial = history with a message and a command'
                % len(COMMANDS))
    run.bound = {'depth': depth}
    run.assumptions = ['stop() returning True halts the program, gdb.execute(continue/quit) do what they say: assumed by the '
                       'model, confirmed in the thorough tier by playing command schedules in the real GDB 13.1',
                       'commands can be typed only while GDB has the prompt (program halted or not yet started)']


def replay(case):
    sut.bind(fake_gdb=True)
    sut.ensure_protocols()
    if 'ui' in case:
        return eval_ui(case).viols
    return run_hist(case['init'], case['history'])[0]
