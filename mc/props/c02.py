"""C02 - every object mention is attributed to the right incarnation of its id.

BFS over well-formed single-connection histories (alphabet in ref/objtable.py),
merged on the reference object table; oracle = reference labels on every output
line + object table shape through the Connection interface."""
from .. import sut, explore
from . import histcheck as hc

KINDS = {'label', 'shape', 'log', 'line', 'exception', 'annotation'}
PID = 'C02'


def plan(tier):
    if tier == 'quick':
        return [('client', 5), ('server', 4), ('server_gaps_tagged', 3), ('late_registry', 5), ('late_registry_server', 3),
                ('client_micro_times', 4), ('client_decorated', 3), ('client_top_server_ids', 3)], (520, 80)
    return [('client', 8), ('server', 7), ('client_equal_times', 6), ('server_gaps_tagged', 6), ('late_registry', 8),
            ('late_registry_server', 6), ('client_micro_times', 7), ('client_decorated', 5), ('client_top_server_ids', 5)], (1100, 800)


def run(run, tier, seed, kinds=KINDS, pid=PID):
    sut.bind()
    sut.ensure_protocols()
    variants, chain = plan(tier)
    if pid == 'C02':
        variants = variants + [('client_wrap_times', 4 if tier == 'quick' else 6)]
    for name, depth in variants:
        variant = hc.VARIANTS[name]
        res = explore.bfs(hc.make_expand(variant, kinds), depth, seed=seed,
                          bound={'variant': name, 'depth': depth})
        run.add_part('bfs:' + name, res)
    if True:
        # pure depth (no merging): every history, so nothing rests on the merge argument up to this depth
        for name, depth in ((('client', 5), ('late_registry', 6)) if tier == 'thorough' else (('client', 3), ('late_registry', 4))):
            res = explore.bfs(hc.make_expand(hc.VARIANTS[name], kinds), depth, seed=seed, merge=False,
                              bound={'variant': name, 'depth': depth, 'merged': False})
            run.add_part('bfs_unmerged:' + name, res)
    # connections that are closed and opened again on the same identifier: mentions resolve in the new, empty table
    from . import c04
    res = explore.bfs(c04.expand_sink, 5 if tier == 'quick' else 7, seed=seed, bound={'sink_depth': 5 if tier == 'quick' else 7})
    res.violations = [v for v in res.violations if v.kind.split('.')[0] == 'sink']      # attribution (C02) and lifetimes (C03) alike
    run.add_part('reopened_identifiers', res)
    # deep chain: generation letters past z / zz
    variant = hc.VARIANTS['client']
    hist = hc.deep_chain(variant, *chain)

    def one(case):
        V, outcome = hc.run_history(case, variant, check_from=0)
        return explore.Eval([v for v in V if v.kind.split('.')[0] in kinds], outcome=outcome,
                            nontrivial=True, transitions=len(case))
    res = explore.prod(lambda: iter([hist]), one, workers=1, bound={'chain': chain})
    res.samples = [hist[:6] + ['...'] + hist[-4:]]
    run.add_part('deep_chain', res)
    if pid == 'C02':
        # the same histories through the other front door: closures delivered to the real plugin on the GDB model
        from . import c02gdb
        c02gdb.parent_parts(run, tier, seed)
    run.rule = ('explicit-state BFS over well-formed histories on one connection (events: create by request/event/'
                'bind, delete_id, use, mention, foreign delete_id; ids %s + server ids; merged on the reference object '
                'table); a history is non-trivial when some id gets a second incarnation' % (list(hc.ot.CLIENT_IDS),))
    run.bound = {'variants': variants, 'deep_chain_reuses': chain}
    run.assumptions = [
        'libwayland printer model (ref/wlprint.py) bound to the real logs and the installed library at setup',
        'merging on (incarnation count, latest type, latest liveness) per id: later output depends on nothing else '
        'except creation times, which enter only through a subtraction checked on every transition',
    ]


def replay(case):
    sut.bind()
    sut.ensure_protocols()
    if 'gdb_history' in case:
        from . import c02gdb
        return c02gdb.replay(case)
    if 'sink_history' in case:
        from . import c04
        return c04.run_sink(case['sink_history'])[0]
    V, _ = hc.run_history(case['history'], case['variant'], check_from=0)
    return [v for v in V if v.kind.split('.')[0] in KINDS]
