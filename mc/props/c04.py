"""C04 - messages are attributed to the right connection; connections are isolated.

(i)  ILV: all order-preserving interleavings of 2-3 per-connection scripts that use
     the *same object ids*; the projection onto each connection must equal its solo
     run (renamed), its object table must equal the reference, names A, B, C in order
     of first appearance, one New notice before the first line, one Closed at the end.
(ii) BFS over the connection-id interface: open / message / close sequences incl.
     re-opening an open id, closing unknown ids, closing twice.
(iii) the real command line under PYTHONHASHSEED 0..7: every connection closed once.
"""
import os
import re
import subprocess
import tempfile
import traceback

from .. import sut, explore, outparse
from ..explore import Eval
from ..report import Violation
from ..ref import objtable as ot, wlprint, letters
from . import histcheck as hc

S = ot.SERVER_BASE
SCRIPTS = {
    'a': dict(events=[['get_registry'], ['bind', 5, 'zz_f'], ['creq', 3, 'zz_a'], ['del', 3], ['creq', 3, 'zz_a']], role='client'),
    'b': dict(events=[['get_registry'], ['creq', 3, 'wl_callback'], ['del', 3], ['creq', 3, 'wl_callback'], ['use', 3]], role='client'),
    'c': dict(events=[['get_registry'], ['bind', 5, 'zz_f'], ['creq', 3, 'zz_a'], ['del', 3], ['creq', 3, 'wl_callback']],
              role='server', server_side=True),
    'd': dict(events=[['creq', 3, 'wl_callback'], ['use', 3], ['del', 3], ['creq', 3, 'wl_callback'], ['use', 3]], role='unknown'),
    'e': dict(events=[['get_registry'], ['bind', 5, 'zz_f'], ['cev', S, 'zz_a'], ['cev', S, 'wl_callback'], ['ment', S]], role='client'),
    'q': dict(events=[['get_registry'], ['quote', '12'], ['creq', 3, 'wl_callback'], ['quote', '1'], ['del', 3]], role='client'),
    'o': dict(events=[['get_registry'], ['orphan'], ['creq', 3, 'wl_callback'], ['orphan'], ['use', 3]], role='client'),
    # a log that begins in the middle of a session: the first line of the tag is a message the tool cannot take in
    'r': dict(events=[['reject'], ['creq', 3, 'wl_callback'], ['use', 3], ['reject'], ['del', 3]], role='unknown'),
    'r2': dict(events=[['reject'], ['get_registry']], role='unknown'),
    'r0': dict(events=[['reject']], role='unknown'),      # a connection that is opened and never gets a message recorded
    # an id is mentioned (its object was created before the log began) and only later created
    'p': dict(events=[['get_registry'], ['orphan', 3], ['creq', 3, 'wl_callback'], ['use', 3], ['del', 3]], role='client'),
    'b3': dict(events=[['get_registry'], ['creq', 3, 'wl_callback'], ['del', 3]], role='client'),
    'd3': dict(events=[['creq', 3, 'wl_callback'], ['del', 3], ['creq', 3, 'wl_callback']], role='unknown'),
    'f3': dict(events=[['get_registry'], ['bind', 3, 'zz_b'], ['use', 3]], role='server', server_side=True),
    'g2': dict(events=[['get_registry'], ['creq', 3, 'wl_callback']], role='client'),
    'a4': dict(events=[['get_registry'], ['bind', 5, 'zz_f'], ['creq', 3, 'zz_a'], ['ment', 3]], role='client'),
    'c4': dict(events=[['get_registry'], ['creq', 3, 'wl_callback'], ['del', 3], ['creq', 3, 'wl_callback']],
               role='server', server_side=True),
}

TUPLES_QUICK = [('a', 'b'), ('a', 'c'), ('b', 'd'), ('e', 'a'), ('b3', 'd3', 'f3'), ('b3', 'b3', 'b3'), ('q', 'b'), ('o', 'b3'),
                ('r', 'b3'), ('r2', 'b3', 'r2'), ('p', 'b3'), ('r0', 'b3', 'g2')]
TUPLES_THOROUGH = TUPLES_QUICK + [('c', 'd'), ('e', 'c'), ('b', 'b'), ('d', 'd'), ('a4', 'c4', 'g2'), ('c4', 'a4', 'b3'),
                                  ('a', 'b', 'd3'), ('c', 'e', 'b3'), ('d', 'b', 'g2'), ('a4', 'c4', 'a4'),
                                  ('b3', 'd3', 'f3', 'g2')]
TAGS = ['1', '12', '7', '3']
T0 = 2000000000


def gen_ilv(tier):
    for tup in (TUPLES_QUICK if tier == 'quick' else TUPLES_THOROUGH):
        lens = [len(SCRIPTS[k]['events']) for k in tup]
        for order in explore.interleavings(lens):
            yield {'scripts': list(tup), 'order': list(order)}
            if len(tup) == 2 and tup[0] in ('b', 'a'):
                # every line of the whole input carries the same timestamp (lifespans 0, destruction at relative time 0)
                yield {'scripts': list(tup), 'order': list(order), 'equal_times': True}


def render_ilv(case, only=None):
    """-> list of (conn_index, line, expectation), and the per-connection references.
    Timestamps follow the global position, so a solo run (only=k) keeps the times its
    lines had in the interleaved stream."""
    refs = [ot.RefConn() for _ in case['scripts']]
    pos = [0] * len(case['scripts'])
    out = []
    for n, ci in enumerate(case['order']):
        sc = SCRIPTS[case['scripts'][ci]]
        ev = sc['events'][pos[ci]]
        pos[ci] += 1
        msg, exp = ot.build(ev, refs[ci], T0 if case.get('equal_times') else T0 + n * 100,
                            server_side=sc.get('server_side', False), conn=TAGS[ci])
        if only is None or only == ci:
            out.append((ci, wlprint.render(msg, 'cur'), exp))
    return out, refs


def observe(lines_with_conn):
    """Run a stream; -> dict of what the user sees."""
    s = sut.Session()
    sut.LOG.take()
    per_line = []
    for (_, line, _) in lines_with_conn:
        out, err = s.feed_line(line)
        per_line.append((out, err, sut.LOG.take()))
    listing_open, _ = s.cmd('connection')
    closing, cerr = s.close()
    listing_closed, _ = s.cmd('connection')
    # what `list` shows for each connection on its own (the record of one connection is that connection's lines)
    s.per_connection = {}
    for cl in map(outparse.connection_line, listing_closed):
        if cl:
            s.cmd('connection ' + cl['name'])
            s.per_connection[cl['name']] = (s.cmd('list *')[0], s.cmd('list * ~ 1')[0])
    s.cmd('connection all')
    return s, per_line, listing_open, closing, listing_closed


def body(rec_text):
    """Text of a message line after the time column and connection name."""
    return re.sub(r'^\s*-?\d+\.\d{4} \w*: ', '', rec_text)


def eval_ilv(case):
    V = []
    try:
        stream, refs = render_ilv(case)
        s, per_line, listing_open, closing, listing_closed = observe(stream)
        nconn = len(case['scripts'])
        first_seen = []
        for ci in case['order']:
            if ci not in first_seen:
                first_seen.append(ci)
        names = {ci: letters.word(k, caps=True) for k, ci in enumerate(first_seen)}
        roles = {ci: SCRIPTS[case['scripts'][ci]]['role'] for ci in range(nconn)}
        proj = {ci: [] for ci in range(nconn)}
        announced = set()
        for (ci, line, exp), (out, err, logs) in zip(stream, per_line):
            step = {'line': line}
            got_notice = [outparse.classify(l)[1] for l in out if outparse.classify(l)[0] == 'notice']
            recs = [outparse.classify(l)[1] for l in out if outparse.classify(l)[0] == 'message']
            want_notice = [] if ci in announced else [{'what': 'New', 'role': roles[ci], 'conn': names[ci]}]
            announced.add(ci)
            if got_notice != want_notice:
                V.append(Violation('notice.new', case, dict(step, expected=want_notice, observed=got_notice)))
            if (err or logs) and not exp.get('orphan') and not exp.get('rejected'):
                V.append(Violation('log.noise', case, dict(step, err=err, log=logs)))
            if exp.get('rejected'):
                items = [l for l in out if outparse.classify(l)[0] not in ('notice', 'separator')]
                if recs or len(items) != 1:
                    V.append(Violation('line.rejected_item', case, dict(step, observed=out)))
                continue
            if len(recs) != 1:
                V.append(Violation('line.count', case, dict(step, observed=out)))
                continue
            r = recs[0]
            if r['conn'] != names[ci] and not exp.get('orphan'):
                V.append(Violation('attribution.name', case, dict(step, expected=names[ci], observed=r['conn'], shown=r['text'])))
            for what, e, o in ot.check_line(r, exp):
                V.append(Violation('attribution.' + what.split(' ')[0].rstrip('0123456789'), case,
                                   dict(step, what=what, expected=e, observed=o, shown=r['text'])))
            proj[ci].append(body(r['text']))
        # the connection listing, while open and after the end of input
        for tag, listing, state in (('open', listing_open, 'open'), ('closed', listing_closed, 'closed')):
            want = [{'name': names[ci], 'role': roles[ci], 'closed': state == 'closed', 'selected': False,
                     'messages': len([e for e in SCRIPTS[case['scripts'][ci]]['events'] if e[0] != 'reject']), 'state': state}
                    for ci in first_seen]
            got = [cl for cl in map(outparse.connection_line, listing) if cl]      # rows; a header or footer of the table is presentation
            if got != want:
                V.append(Violation('listing.' + tag, case, {'expected': want, 'observed': got}))
        got_closed = sorted((outparse.classify(l)[1]['conn'], outparse.classify(l)[1]['role'])
                            for l in closing if outparse.classify(l)[0] == 'notice' and outparse.classify(l)[1]['what'] == 'Closed')
        want_closed = sorted((names[ci], roles[ci]) for ci in range(nconn))
        if got_closed != want_closed or len(closing) != len(want_closed):
            V.append(Violation('notice.closed', case, {'expected': want_closed, 'observed': closing}))
        for ci in range(nconn):
            listed, capped = s.per_connection.get(names[ci], ([], []))
            got = [body(outparse.classify(l)[1]['text']) for l in listed if outparse.classify(l)[0] == 'message']
            if got != proj[ci] and len(proj[ci]) == len([e for e in SCRIPTS[case['scripts'][ci]]['events'] if e[0] != 'reject']):
                V.append(Violation('isolation.list_of_connection', case, {'connection': names[ci], 'expected': proj[ci], 'listed': got}))
            cnt = [r for c, r in map(outparse.classify, capped) if c == 'count']
            none_of = [r for c, r in map(outparse.classify, capped) if c == 'none_of']
            total = (cnt[0]['matched'] + cnt[0]['didnt'] + cnt[0]['notchecked']) if cnt else (none_of[0]['n'] if none_of else 0)
            if total != len(proj[ci]) and len(proj[ci]) == len([e for e in SCRIPTS[case['scripts'][ci]]['events'] if e[0] != 'reject']):
                V.append(Violation('isolation.list_counts_of_connection', case, {'connection': names[ci], 'messages': len(proj[ci]),
                                                                                  'counts_add_up_to': total, 'footer': capped[-1:]}))
        # object tables through the Connection interface
        conns = {c.name(): c for c in s.cm.connections()}
        for ci in range(nconn):
            c = conns.get(names[ci])
            if c is None:
                V.append(Violation('attribution.missing_connection', case, {'name': names[ci]}))
                continue
            sub = []
            hc.check_state(c, refs[ci], case, sub)
            for v in sub:
                V.append(Violation('isolation.' + v.kind, case, dict(v.detail, connection=names[ci])))
        # differential: the projection equals the solo run (renamed)
        for ci in range(nconn):
            solo_stream, _ = render_ilv(case, only=ci)
            s2, per2, lo2, cl2, lc2 = observe(solo_stream)
            solo = [body(outparse.classify(l)[1]['text']) for (out, _, _) in per2 for l in out
                    if outparse.classify(l)[0] == 'message']
            if solo != proj[ci]:
                k = next((i for i, (x, y) in enumerate(zip(solo, proj[ci])) if x != y), min(len(solo), len(proj[ci])))
                V.append(Violation('isolation.projection', case, {
                    'connection': names[ci], 'first_difference_at': k,
                    'solo': solo[k:k + 1], 'interleaved': proj[ci][k:k + 1]}))
            want = [dict(cl, name=names[ci]) for cl in map(outparse.connection_line, lo2) if cl]
            got = [outparse.connection_line(l) for l in listing_open if (outparse.connection_line(l) or {}).get('name') == names[ci]]
            if want != got:
                V.append(Violation('isolation.listing', case, {'solo': want, 'interleaved': got}))
    except Exception:
        V.append(sut.exc_violation(case))
    switches = sum(1 for a, b in zip(case['order'], case['order'][1:]) if a != b)
    return Eval(V, outcome=[case['scripts'], len(V)], nontrivial=switches >= 2,
                transitions=2 * len(case['order']))


# ---------------------------------------------------------------------------
# (ii) BFS over the ConnectionIDSink interface

SINK_SCRIPT = [['get_registry'], ['creq', 3, 'wl_callback'], ['del', 3], ['creq', 3, 'wl_callback'], ['use', 3],
               ['del', 3], ['creq', 3, 'wl_callback']]
SINK_EVENTS = [['open', 'x', False], ['msg', 'x'], ['close', 'x'], ['open', 'y', True], ['msg', 'y'], ['close', 'y'],
               ['open', 'y', None], ['close', 'z']]


class RefRegistry:
    """Reference: connection ids -> connection instances named A, B, ... in order of
    opening; an id opened again is a new instance with an empty object table."""

    def __init__(self):
        self.instances = []     # dicts: name, role, open, ref(RefConn), pos
        self.open = {}

    def key(self):
        return [[i['role'], i['open'], i['pos']] for i in self.instances] + [sorted((k, v) for k, v in self.open.items())]

    def enabled(self):
        return [e for e in SINK_EVENTS if e[0] != 'msg' or
                (e[1] in self.open and self.instances[self.open[e[1]]]['pos'] < len(SINK_SCRIPT))]


def role_word(r):
    return {None: 'unknown', True: 'server', False: 'client'}[r]


def run_sink(hist, check_from=0):
    from core import ConnectionManager, matcher
    from core.output import stream, Output
    from frontends.tui import Controller
    from backends.libwayland_debug_output import parse
    case = {'sink_history': [list(e) for e in hist]}
    V = []
    reg = RefRegistry()
    try:
        sut.reset_globals()
        sut.ensure_protocols()
        out = stream.String()
        err = stream.String()
        o = Output(False, True, out, err)
        cm = ConnectionManager()
        ctl = Controller(o, cm, matcher.always, matcher.never)
        mark = 0
        for n, ev in enumerate(hist):
            t_us = T0 + n * 100
            want = []
            if ev[0] == 'open':
                _, cid, role = ev
                if cid in reg.open:
                    old = reg.instances[reg.open[cid]]
                    old['open'] = False
                    want.append('Closed %s connection %s' % (role_word(old['role']).replace('unknown', 'unknown type'), old['name']))
                inst = {'name': letters.word(len(reg.instances), caps=True), 'role': role, 'open': True,
                        'ref': ot.RefConn(), 'pos': 0}
                reg.open[cid] = len(reg.instances)
                reg.instances.append(inst)
                want.append('New %s connection %s' % (role_word(role).replace('unknown', 'unknown type'), inst['name']))
                ret = cm.open_connection(t_us / 1e6, cid, role)
                if ret.name() != inst['name']:
                    V.append(Violation('sink.open_return', case, {'expected': inst['name'], 'observed': ret.name()}))
            elif ev[0] == 'close':
                _, cid = ev
                if cid in reg.open:
                    inst = reg.instances[reg.open.pop(cid)]
                    inst['open'] = False
                    want.append('Closed %s connection %s' % (role_word(inst['role']).replace('unknown', 'unknown type'), inst['name']))
                cm.close_connection(t_us / 1e6, cid)
            else:
                _, cid = ev
                inst = reg.instances[reg.open[cid]]
                sev = SINK_SCRIPT[inst['pos']]
                inst['pos'] += 1
                msg, exp = ot.build(sev, inst['ref'], t_us, server_side=bool(inst['role']))
                _, m = parse.message(wlprint.render(msg, 'mid'))
                cm.message(cid, m)
                want.append(('message', inst['name'], exp))
            new = sut._lines(out.buffer[mark:])
            mark = len(out.buffer)
            logs = sut.LOG.take()
            if n < check_from:
                continue
            step = {'step': n, 'event': ev}
            if err.buffer or logs:
                V.append(Violation('log.noise', case, dict(step, err=err.buffer, log=logs)))
            if len(new) != len(want):
                V.append(Violation('sink.output_count', case, dict(step, expected=[w if isinstance(w, str) else 'message' for w in want], observed=new)))
                continue
            for w, l in zip(want, new):
                if isinstance(w, str):
                    if not outparse.same_notice(l, w):
                        V.append(Violation('sink.notice', case, dict(step, expected=w, observed=l)))
                else:
                    c, r = outparse.classify(l)
                    if c != 'message' or r['conn'] != w[1]:
                        V.append(Violation('sink.attribution', case, dict(step, expected=w[1], observed=l)))
                        continue
                    for what, e, o_ in ot.check_line(r, w[2]):
                        V.append(Violation('sink.' + what.split(' ')[0].rstrip('0123456789'), case,
                                           dict(step, what=what, expected=e, observed=o_, shown=l)))
        # final state: all instances listed in order, open/closed, counts, tables
        conns = cm.connections()
        got = [(c.name(), c.is_server(), c.is_open(), len(c.messages())) for c in conns]
        want = [(i['name'], i['role'], i['open'], i['ref'].nmsg) for i in reg.instances]
        if got != want:
            V.append(Violation('sink.listing', case, {'expected': want, 'observed': got}))
        else:
            # names are unambiguous: `X:` selects exactly the messages of the connection called X
            for i in reg.instances:
                mark = len(out.buffer)
                ctl.process_command('list %s:' % i['name'])
                n_listed = sum(1 for l in sut._lines(out.buffer[mark:]) if outparse.classify(l)[0] == 'message')
                if n_listed != i['ref'].nmsg:
                    V.append(Violation('sink.name_matcher', case, {'name': i['name'], 'expected_messages': i['ref'].nmsg, 'listed': n_listed}))
            for c, i in zip(conns, reg.instances):
                sub = []
                hc.check_state(c, i['ref'], case, sub)
                for v in sub:
                    V.append(Violation('sink.' + v.kind, case, dict(v.detail, connection=i['name'])))
    except Exception:
        V.append(sut.exc_violation(case))
    return V, reg


def expand_sink(hist):
    _, reg = run_sink(hist, check_from=len(hist))
    out = []
    for ev in reg.enabled():
        h2 = list(hist) + [ev]
        V, reg2 = run_sink(h2, check_from=len(hist))
        reopen = sum(1 for e in h2 if e[0] == 'open') > len({e[1] for e in h2 if e[0] == 'open'})
        out.append((ev, reg2.key(), Eval(V, outcome=reg2.key(), nontrivial=reopen, transitions=len(h2))))
    return out


# ---------------------------------------------------------------------------
# (iii) the real command line, one interpreter per hash seed

def hashseed_part(run, seeds):
    case0 = {'scripts': ['b3', 'd3', 'f3'], 'order': [0, 1, 2, 0, 1, 2, 0, 1, 2]}
    stream, _ = render_ilv(case0)
    text = ''.join(l + '\n' for (_, l, _) in stream)
    res = explore.Result()
    outs = set()
    with tempfile.TemporaryDirectory(prefix='verif-c04-') as d:
        path = os.path.join(d, 'in.log')
        with open(path, 'w') as f:
            f.write(text)
        for seed in seeds:
            env = dict(os.environ, PYTHONHASHSEED=str(seed), PYTHONDONTWRITEBYTECODE='1')
            p = subprocess.run(['/venv/bin/python', os.path.join(sut.REPO, 'main.py'), '-l', path],
                               input='q\n', capture_output=True, text=True, env=env, cwd=d, timeout=60)
            res.evaluations += 1
            res.transitions += len(stream)
            res.validated += 1
            closed = re.findall(r'^Closed (\w+(?: type)?) connection (\w+)(?=$|[^\w])', p.stdout, re.M)
            new = re.findall(r'^New (\w+(?: type)?) connection (\w+)(?=$|[^\w])', p.stdout, re.M)
            case = {'hashseed': seed, 'stream': text.split('\n')}
            outs.add(explore.h64(p.stdout))
            if sorted(closed) != [('client', 'A'), ('server', 'C'), ('unknown type', 'B')] or \
                    new != [('client', 'A'), ('unknown type', 'B'), ('server', 'C')] or p.returncode != 0:
                res.violations.append(Violation('cli.notices', case, {
                    'new': new, 'closed': closed, 'returncode': p.returncode, 'stderr': p.stderr[-600:]}))
    res.states = res.evaluations
    res.outcomes = len(outs)
    res.nontrivial = res.evaluations
    res.samples = [{'hashseeds': list(seeds), 'stream_lines': len(stream)}]
    res.bound = {'hashseeds': list(seeds)}
    run.add_part('cli_hashseeds', res)


def run(run, tier, seed):
    sut.bind()
    sut.ensure_protocols()
    res = explore.prod(lambda: gen_ilv(tier), eval_ilv, seed=seed,
                       bound={'tuples': TUPLES_QUICK if tier == 'quick' else TUPLES_THOROUGH})
    run.add_part('interleavings', res)
    depth = 5 if tier == 'quick' else 7
    res = explore.bfs(expand_sink, depth, seed=seed, bound={'depth': depth, 'events': SINK_EVENTS})
    run.add_part('sink_bfs', res)
    d_un = 4 if tier == 'quick' else 5
    res = explore.bfs(expand_sink, d_un, seed=seed, merge=False, bound={'depth': d_un, 'merged': False})
    run.add_part('sink_bfs_unmerged', res)
    hashseed_part(run, range(2) if tier == 'quick' else range(8))
    run.rule = ('all order-preserving interleavings of tuples of per-connection scripts using the same object ids '
                '(non-trivial = at least two context switches); BFS over open/message/close on the connection-id sink '
                '(non-trivial = some id opened again); real CLI under several hash seeds')
    run.bound = {'ilv_tuples': len(TUPLES_QUICK if tier == 'quick' else TUPLES_THOROUGH), 'sink_depth': depth}
    run.assumptions = ['time column masked in the projection comparison (times are relative to the first message of the '
                       'whole input); order of the closing notices at end of input is not constrained by C04']


def replay(case):
    sut.bind()
    sut.ensure_protocols()
    if 'sink_history' in case:
        return run_sink(case['sink_history'])[0]
    if 'hashseed' in case:
        r = explore.Result()

        class _R:
            def add_part(self, n, res):
                r.violations = res.violations
        hashseed_part(_R(), [case['hashseed']])
        return r.violations
    return eval_ilv(case).viols
