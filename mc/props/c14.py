"""C14 - displayed object and connection labels are unambiguous and work as matchers.

(a) PROD: number<->letters conversion for every index below 26+26^2+26^3+26^4
    (= 475 254) in both cases, plus a deterministic lattice to 26^8, against the
    by-construction reference sequence; the name generator yields it without gaps.
(b) histories: in every state reached by the C02 alphabet (BFS) and in the C04
    interleavings, labels are pairwise distinct and `list <conn>: <label>` returns
    exactly the messages on / mentioning / creating / destroying that object;
    `list <conn>:` exactly that connection's messages.  Deep chains give labels
    beyond z / zz and connection names beyond Z.
"""
import itertools
import re
import traceback

from .. import sut, explore, outparse
from ..explore import Eval
from ..report import Violation
from ..ref import letters, objtable as ot, wlprint
from . import histcheck as hc
from . import c04

FOUR = 26 + 26 ** 2 + 26 ** 3 + 26 ** 4
BLOCK = 4096


def gen_blocks(tier):
    for start in range(0, FOUR, BLOCK):
        yield {'range': [start, min(FOUR, start + BLOCK)]}
    lat = set()
    for k in range(1, 9):
        for d in (-2, -1, 0, 1, 2):
            lat.add(sum(26 ** j for j in range(1, k + 1)) + d)   # block boundaries
            lat.add(26 ** k + d)
    step = 10 ** 6 if tier == 'thorough' else 10 ** 8
    lat.update(range(FOUR, sum(26 ** j for j in range(1, 9)), step * 997))
    yield {'points': sorted(x for x in lat if x >= 0)}


def eval_block(case):
    from core import letter_id_generator as lg
    V = []
    if 'range' in case:
        a, b = case['range']
        idx = range(a, b)
    else:
        idx = case['points']
    prev = None
    n = 0
    for i in idx:
        want = letters.word(i)
        try:
            lo = lg.number_to_letter_id(i, False)
            up = lg.number_to_letter_id(i, True)
            back_lo = lg.letter_id_to_number(lo)
            back_up = lg.letter_id_to_number(up)
        except Exception:
            V.append(sut.exc_violation({'index': i}, 'letters.exception'))
            break
        n += 1
        if lo != want or up != want.upper():
            V.append(Violation('letters.sequence', {'index': i}, {'expected': want, 'observed': [lo, up]}))
            break
        if back_lo != i or back_up != i:
            V.append(Violation('letters.roundtrip', {'index': i}, {'letters': lo, 'back': [back_lo, back_up]}))
            break
        if 'range' in case and prev is not None and not ((len(prev), prev) < (len(lo), lo)):
            V.append(Violation('letters.order', {'index': i}, {'previous': prev, 'this': lo}))
            break
        prev = lo
    return Eval(V, outcome=None, nontrivial=True, transitions=n)


def eval_generator(case):
    from core import letter_id_generator as lg
    g = lg.LetterIdGenerator()
    V = []
    for i, want in zip(range(case['count']), letters.sequence(caps=True)):
        got = g.next()
        if got != want:
            V.append(Violation('letters.generator', {'count': case['count'], 'index': i}, {'expected': want, 'observed': got}))
            break
    return Eval(V, nontrivial=True, transitions=case['count'])


# ---------------------------------------------------------------------------
# labels as matchers

def ref_sets(events_with_exp):
    """events_with_exp: list of (conn_name, exp).  -> {(conn, label): set(line idx)}"""
    sets = {}
    for i, (cn, exp) in enumerate(events_with_exp):
        if exp.get('orphan'):
            continue      # an unresolved object has no id+letters label (it is shown as `@77?`)
        labs = {exp['target']}
        for kind, lab in exp['args']:
            if kind in ('obj', 'new'):
                labs.add(lab)
        if exp['destroyed']:
            labs.add(exp['destroyed'][0])
        for l in labs:
            sets.setdefault((cn, l), set()).add(i)
    return sets


def listed(s, arg, all_lines):
    out, err = s.cmd('list ' + arg)
    got = [l for l in out if outparse.classify(l)[0] == 'message']
    return got, err


def check_labels(s, shown, exps, case, V, also_as_filter=False):
    """shown: message lines as displayed live, in order; exps: (conn name, exp)."""
    sets = ref_sets(exps)
    labels_per_conn = {}
    for (cn, lab) in sets:
        labels_per_conn.setdefault(cn, []).append(lab.split('@', 1)[1])
    for cn, labs in labels_per_conn.items():
        if len(set(labs)) != len(labs):
            V.append(Violation('labels.shared', case, {'connection': cn, 'labels': sorted(labs)}))
    n_filtered = 0
    for (cn, lab), want in sorted(sets.items()):
        short = lab.split('@', 1)[1]
        for spelling in ('%s: %s' % (cn, short), '%s:%s' % (cn, short)):
            if also_as_filter and n_filtered < 8:
                # the label is first added to the output filter, then asked for: the very same text, used twice (the first
                # eight labels of a history: the filter grows with every one of them)
                n_filtered += 1
                s.cmd('filter ' + spelling)
            got, err = listed(s, spelling, shown)
            want_lines = [shown[i] for i in sorted(want)]
            if got != want_lines or err:
                V.append(Violation('labels.as_matcher', case, {
                    'matcher': spelling, 'expected': want_lines, 'observed': got, 'err': err}))
                break
    # labels of different connections in one matcher: each alternative keeps its own connection part
    firsts = {}
    for (cn, lab), want in sorted(sets.items()):
        firsts.setdefault(cn, (lab.split('@', 1)[1], want))
    if len(firsts) >= 2:
        (c1, (l1, w1)), (c2, (l2, w2)) = sorted(firsts.items())[:2]
        for spelling in ('%s: %s, %s: %s' % (c1, l1, c2, l2), '%s: %s, %s: %s' % (c2, l2, c1, l1)):
            got, err = listed(s, spelling, shown)
            want_lines = [shown[i] for i in sorted(w1 | w2)]
            if got != want_lines or err:
                V.append(Violation('labels.of_two_connections', case, {'matcher': spelling, 'expected': want_lines, 'observed': got, 'err': err}))
                break
    for cn in sorted({cn for cn, _ in exps}):
        got, err = listed(s, cn + ':', shown)
        want_lines = [shown[i] for i, (c2, _) in enumerate(exps) if c2 == cn]
        # messages on an object whose creation was never seen are shown without a connection name: whether `B:` selects
        # them is not decided here (upstream files them under the name `unknown`)
        # ... unless the tool itself displays such a line under a connection name: a displayed label must work as a matcher
        def displayed_conn(line):
            return (outparse.classify(line)[1] or {}).get('conn') or ''
        undecided = {shown[i] for i, (c2, e2) in enumerate(exps) if e2.get('orphan') and not displayed_conn(shown[i])}
        got = [l for l in got if l not in undecided]
        want_lines = [l for l in want_lines if l not in undecided]
        if got != want_lines or err:
            V.append(Violation('labels.connection_matcher', case, {'matcher': cn + ':', 'expected': want_lines, 'observed': got, 'err': err}))


def eval_history(case):
    V = []
    try:
        if 'scripts' in case:
            stream, _ = c04.render_ilv(case)
            first_seen = []
            for ci in case['order']:
                if ci not in first_seen:
                    first_seen.append(ci)
            names = {ci: letters.word(k, caps=True) for k, ci in enumerate(first_seen)}
            lines = [l for (_, l, _) in stream]
            exps = [(names[ci], e) for (ci, _, e) in stream]
            feed_only = [i for i, (_, e) in enumerate(exps) if e.get('rejected')]      # lines the tool cannot take in: no label
        else:
            lines, es, _ = hc.render_history(case['history'], case['variant'])
            exps = [('A', e) for e in es]
            feed_only = []
        s = sut.Session()
        shown = []
        for k, line in enumerate(lines):
            if case.get('select') and k in (len(lines) // 3, 2 * len(lines) // 3):
                # a live session in which the user watches one connection, then another: labels of the connections not
                # being watched must select their messages all the same
                s.cmd('connection ' + ('B' if k == len(lines) // 3 else 'A'))
            out, _ = s.feed_line(line)
            shown += [l for l in out if outparse.classify(l)[0] == 'message']
        if case.get('select'):
            s.cmd('connection all')
            shown = [l for l in s.cmd('list *')[0] if outparse.classify(l)[0] == 'message']
        exps = [x for i, x in enumerate(exps) if i not in feed_only]
        if len(shown) != len(lines) - len(feed_only):
            V.append(Violation('labels.line_count', case, {'expected': len(lines) - len(feed_only), 'observed': len(shown)}))
        else:
            check_labels(s, shown, exps, case, V)
            if not V and len(case.get('history', [])) % 2 == 0:
                # the same queries with an output filter active: a label used as a matcher still selects its own lines only
                s.cmd('filter wl_registry')
                check_labels(s, shown, exps, case, V, also_as_filter=True)
    except Exception:
        V.append(sut.exc_violation(case))
    return Eval(V, outcome=len(V), nontrivial=hc.nontrivial(case.get('history', [])) or 'scripts' in case,
                transitions=len(case.get('history', case.get('order', []))))


def gen_histories(tier):
    depth = 3 if tier == 'quick' else 4
    variant = hc.VARIANTS['client']
    # server-side logs too (delete_id is sent there)
    sv = hc.VARIANTS['server']
    for h in ([['creq', 3, 'wl_callback'], ['del', 3], ['creq', 3, 'wl_callback'], ['del', 3], ['creq', 3, 'wl_callback'], ['use', 3]],
              [['creq', 3, 'zz_a'], ['ment', 3], ['del', 3], ['creq', 3, 'wl_callback'], ['foreign', 3]]):
        yield {'history': h, 'variant': sv}

    def rec(hist, d, variant=variant):
        yield {'history': [list(e) for e in hist], 'variant': variant}
        if d == 0:
            return
        ref = hc.ref_after(hist, variant)
        for ev in ot.enabled(ref, with_foreign=False):
            yield from rec(hist + [ev], d - 1, variant)
    yield from rec([], depth)
    # every line carries the time stamp of the first one (a burst within one millisecond): whatever happens then happens
    # at session time 0.0
    yield from rec([], depth, hc.VARIANTS['client_equal_times'])
    # deep chains: labels past z and zz
    yield {'history': hc.deep_chain(variant, 28, 30), 'variant': variant}
    if tier == 'thorough':
        yield {'history': hc.deep_chain(variant, 30, 705), 'variant': hc.VARIANTS['server']}
    for tup in (c04.TUPLES_QUICK if tier == 'quick' else c04.TUPLES_THOROUGH):
        lens = [len(c04.SCRIPTS[k]['events']) for k in tup]
        for n, order in enumerate(explore.interleavings(lens)):
            if tier == 'quick' and n % 7:
                continue   # quick: every 7th interleaving (deterministic slice); thorough: all
            yield {'scripts': list(tup), 'order': list(order)}
            if len(tup) >= 2:
                yield {'scripts': list(tup), 'order': list(order), 'select': True}


SPECIAL_SUFFIXES = ['all', 'inf', 'nan', 'new', 'nil']      # incarnation letters that read like words of the matcher language


def eval_special_suffixes(case):
    """One id reused ~9700 times: the labels whose letters spell `all`, `inf`, `nan`, `new`, `nil` (and their neighbours)
    are labels like any other."""
    import io
    V = []
    try:
        variant = hc.VARIANTS['client']
        first = letters.first(20000)
        want_idx = sorted({first.index(w) + d for w in SPECIAL_SUFFIXES for d in (-1, 0, 1)})
        n = max(want_idx) + 2
        hist = hc.deep_chain(variant, n, 1)
        lines, exps, ref = hc.render_history(hist, variant)
        s = sut.Session()
        s.parser.parse_all(io.StringIO(''.join(l + '\n' for l in lines)))
        out, _ = s.take()
        shown = [l for l in out if outparse.classify(l)[0] == 'message']
        if len(shown) != len(lines):
            V.append(Violation('labels.line_count', case, {'expected': len(lines), 'observed': len(shown)}))
            return Eval(V)
        for idx in want_idx:
            lab = '3' + letters.word(idx)
            want = [shown[i] for i, e in enumerate(exps)
                    if e['target'].endswith('@' + lab) or any(l and l.endswith('@' + lab) for _, l in e['args'])
                    or (e['destroyed'] and e['destroyed'][0].endswith('@' + lab))]
            for spelling in ('A: ' + lab, lab):
                got, err = listed(s, spelling, shown)
                if got != want or err:
                    V.append(Violation('labels.as_matcher', case, {'matcher': spelling, 'expected': want, 'observed': got[:5], 'err': err}))
                    break
    except Exception:
        V.append(sut.exc_violation(case))
    return Eval(V, outcome=len(V), nontrivial=True, transitions=len(SPECIAL_SUFFIXES) * 6)


def eval_many_connections(case):
    """A session with n connections: names A..Z, AA.. are distinct and each `X:` selects its own lines."""
    V = []
    n = case['connections']
    try:
        s = sut.Session()
        shown, exps = [], []
        refs = {}
        for k in range(n):
            for j, ev in enumerate([['get_registry'], ['creq', 3, 'wl_callback']]):
                ref = refs.setdefault(k, ot.RefConn())
                msg, exp = ot.build(ev, ref, c04.T0 + (2 * k + j) * 100, conn=str(100 + k))
                out, _ = s.feed_line(wlprint.render(msg, 'cur'))
                shown += [l for l in out if outparse.classify(l)[0] == 'message']
                exps.append((letters.word(k, caps=True), exp))
        names = [c.name() for c in s.cm.connections()]
        if names != [letters.word(k, caps=True) for k in range(n)] or len(set(names)) != n:
            V.append(Violation('labels.connection_names', case, {'observed': names}))
        elif len(shown) != 2 * n:
            V.append(Violation('labels.line_count', case, {'expected': 2 * n, 'observed': len(shown)}))
        else:
            check_labels(s, shown, exps, case, V)
    except Exception:
        V.append(sut.exc_violation(case))
    return Eval(V, nontrivial=True, transitions=2 * n)


def run(run, tier, seed):
    sut.bind()
    sut.ensure_protocols()
    res = explore.prod(lambda: gen_blocks(tier), eval_block, seed=seed, bound={'exhaustive_below': FOUR, 'lattice_to': '26^8'})
    res.states = res.transitions
    run.add_part('letters', res)
    res = explore.prod(lambda: iter([{'count': 20000}]), eval_generator, workers=1)
    run.add_part('name_generator', res)
    res = explore.prod(lambda: gen_histories(tier), eval_history, seed=seed,
                       bound={'history_depth': 3 if tier == 'quick' else 4})
    run.add_part('labels_as_matchers', res)
    res0 = explore.prod(lambda: iter([{'special_suffixes': SPECIAL_SUFFIXES}]), eval_special_suffixes, workers=1,
                        bound={'suffixes': SPECIAL_SUFFIXES})
    run.add_part('suffixes_that_read_like_words', res0)
    res = explore.prod(lambda: iter([{'connections': 30 if tier == 'quick' else 60}]), eval_many_connections, workers=1)
    run.add_part('many_connections', res)
    # connections that come and go (connection-id interface): names stay distinct and `X:` selects its own messages
    res = explore.bfs(c04.expand_sink, 4 if tier == 'quick' else 6, seed=seed, bound={'sink_depth': 4 if tier == 'quick' else 6})
    res.violations = [v for v in res.violations if v.kind in ('sink.name_matcher', 'sink.notice', 'sink.open_return', 'sink.listing')]
    run.add_part('connections_come_and_go', res)
    run.rule = ('letters: every index below 475254 and a lattice to 26^8 against the by-construction sequence; histories: '
                'every history of the C02 alphabet to the stated depth + deep reuse chains + C04 interleavings, every '
                'label of every object used as matcher; non-trivial = history with id reuse / several connections')
    run.bound = {'letters_exhaustive_below': FOUR, 'history_depth': 3 if tier == 'quick' else 4}
    run.assumptions = ['reference sequence = itertools.product order; reference selection sets derived from the events '
                       'that generated the log (on / mentioning / creating / destroying)']


def replay(case):
    sut.bind()
    sut.ensure_protocols()
    if 'index' in case:
        return eval_block({'points': [case['index']]}).viols + eval_block({'range': [max(0, case['index'] - 1), case['index'] + 1]}).viols
    if 'count' in case:
        return eval_generator(case).viols
    if 'connections' in case:
        return eval_many_connections(case).viols
    if 'special_suffixes' in case:
        return eval_special_suffixes(case).viols
    if 'sink_history' in case:
        return c04.run_sink(case['sink_history'])[0]
    return eval_history(case).viols
