"""C01 - every libwayland debug line decodes to exactly the message it denotes.

PROD engine: structured messages are rendered by the printer model
(ref/wlprint.py) in every dialect / direction / tag combination and decoded by the
real `parse.message`; the decode must equal the structured message.  Non-message
lines must be rejected."""
import itertools
import traceback

from .. import sut, explore
from ..explore import Eval
from ..report import Violation
from ..ref import wlprint

# ---- alphabets (simplest first) ------------------------------------------------

TOKENS = [
    ['int', 0], ['int', -7], ['int', 4294967295],
    ['fixed', 384], ['fixed', -1],
    ['str', 'a'], ['str', ''], ['str', 'a, b'],
    ['obj', 'wl_x', 5], ['new', 'wl_x', 6], ['new', None, 6], ['nil'],
    ['fd', 9], ['array', 8],
    # interface names that begin like the keywords of other argument kinds (nil / new id, array, fd)
    ['obj', 'nested_surface', 7], ['obj', 'aura_shell', 14], ['obj', 'fd_holder', 21], ['new', 'array_list', 22],
]
KIND_REPS = [['int', 3], ['fixed', 640], ['str', 'k l'], ['obj', 'zz_y', 12], ['new', 'zz_y', 13], ['new', None, 14],
             ['nil'], ['fd', 4], ['array', 0]]

STR_TOKENS = ['a', ' ', ',', ', ', '(', ')', '[', ']', '{', '}', '<1>', '@3', '#3', ' -> ', '.', 'nil', 'new id ', 'fd 3',
              'array', '7', '-', '1.5', "'", 'é', '[1.0] ', 'x@1.y(', '1,5', '10,20,30', ':)', '(null)', 'null', 'Café 日本語',
              # composite bodies that look like a whole message head
              '[1.0]  -> x@1.y(', '} <2> c#2.d(', '[2.0] z@2.w(', '[3.0] <6>  -> v@4.u(', '[3.0] {q} <7> v@4.u(']

NEIGHBOURS = [['int', 1], ['str', 'n'], ['nil'], ['obj', 'wl_x', 5], ['new', None, 6], ['fixed', 384], ['array', 4],
              ['fd', 2]]

# dialect x tags: (dialect, queue, conn)
COMBOS = [('old', None, None), ('oldc', None, None), ('mid', None, None), ('cur', None, None),
          ('cur', 'q', None), ('cur', None, '1'), ('cur', 'Default Queue', '12'), ('cur', 'q', '3'),
          # queue names are free text
          ('cur', 'frame callbacks (vsync)', None), ('cur', 'egl(0x55d0) [2]', '3')]
COMBOS_SMALL = [('old', None, None), ('oldc', None, None), ('mid', None, None), ('cur', 'Default Queue', '12')]

TIMES = [0, 1, 999, 1000, 492063955, 3261636706, 4294967295999]

NEGATIVES = [
    '', ' ', 'hello', 'Gdk-Message: 13:34:01.262: Error 22 (Invalid argument) dispatching to Wayland display.',
    '** (mate-panel:9758): WARNING **: 13:34:01.260: unmap-event signal sent', 'Unknown parameter: ?2004',
    '[123] not a message', '[123.456]', '[123.456] ', '[123.456]  -> ', 'wl_foo@3.bar()', ' -> wl_foo@3.bar()',
    '[ 123.456] discarded [unknown]@3.[event 2](0 fd, 12 byte)',
    'wl_display@1: error 0: invalid object 7', '[123.456] wl_foo@3.bar', '[123.456] wl_foo@3.bar(', '[123.456] wl_foo@3bar()',
    '[123.456] wl_foo.bar()', '[123.456] @3.bar()', '[123.456] wl_foo@x.bar()', '[123.456] wl_foo@3.()',
    '[abc.def] wl_foo@3.bar()', '123.456 wl_foo@3.bar()', '[123.456]wl_foo@3.bar()',
    'libwayland: unable to lock lockfile', 'error in client communication (pid 12)', '()', '[]', '{q} <1>',
    '[123.456] {q} <1>', '-> wl_foo@3.bar(1, 2)', '[1.2.3] wl_foo@3.bar()',
]


def base_msg(args, sent=True, queue=None, conn=None, t_us=492063955, iface='wl_foo', oid=3, name='bar'):
    return {'t_us': t_us, 'sent': sent, 'iface': iface, 'id': oid, 'name': name, 'args': args,
            'queue': queue, 'conn': conn}


def fill(n, pos_tokens):
    """n arguments: the given tokens at the given positions, a rotating pattern of one
    representative per kind elsewhere."""
    args = [KIND_REPS[(i * 4 + n) % len(KIND_REPS)] for i in range(n)]
    for p, t in pos_tokens:
        args[p] = t
    return args


def gen_cases(tier):
    """Yields case = {'m': structured message, 'd': dialect} or {'neg': line}."""
    quick = tier == 'quick'
    maxlen = 2 if quick else 3
    # (i) all argument lists to maxlen in every combination
    for L in range(maxlen + 1):
        for args in itertools.product(TOKENS, repeat=L):
            for (d, q, c) in COMBOS:
                for sent in (True, False):
                    yield {'m': base_msg(list(args), sent, q, c), 'd': d}
    # (ii) every kind at every position for lengths 4..20; adjacent pairs
    for (d, q, c) in COMBOS_SMALL:
        for n in range(4, 21):
            for pos in range(n):
                for t in TOKENS:
                    yield {'m': base_msg(fill(n, [(pos, t)]), pos % 2 == 0, q, c), 'd': d}
        for n in (6, 20):
            for pos in (0, n // 2, n - 2):
                for t1 in TOKENS:
                    for t2 in TOKENS:
                        yield {'m': base_msg(fill(n, [(pos, t1), (pos + 1, t2)]), False, q, c), 'd': d}
    # (iii) hostile string bodies
    for L in range(1, maxlen + 1):
        for toks in itertools.product(STR_TOKENS, repeat=L):
            body = ''.join(toks)
            s = ['str', body]
            shapes = [[s]]
            if L <= 2:
                for x in NEIGHBOURS:
                    shapes.append([s, x])
                    shapes.append([x, s])
                    if L == 1 or not quick:
                        shapes.append([x, s, NEIGHBOURS[(len(body) + 1) % len(NEIGHBOURS)]])
                shapes.append([s, s])
            for (d, q, c) in COMBOS_SMALL:
                for sh in shapes:
                    yield {'m': base_msg(sh, sent=(len(body) % 2 == 0), queue=q, conn=c), 'd': d}
            if L == 1 or not quick:
                # both directions and both tag shapes for the lone string
                for (d, q, c) in COMBOS:
                    for sent in (True, False):
                        yield {'m': base_msg([s], sent, q, c), 'd': d}
    # (iv) numeric lattices
    ints = set()
    for k in range(33):
        for dlt in (-1, 0, 1):
            for sign in (1, -1):
                v = sign * (2 ** k) + dlt
                if -2 ** 31 <= v < 2 ** 32:
                    ints.add(v)
    for k in range(1, 11):
        ints.update({10 ** k - 1, 10 ** k, -(10 ** (k - 1))})
    ints = sorted(v for v in ints if -2 ** 31 <= v < 2 ** 32)
    for v in ints:
        for d in ('old', 'mid', 'cur'):
            yield {'m': base_msg([['int', v], ['int', 1]], v % 2 == 0), 'd': d}
    ip = [0, 1, -1, 7, -7, 8388607, -8388608, 127, -128] if not quick else [0, 1, -1, 7, 8388607, -8388608]
    for i in ip:
        for frac in range(256):
            raw = i * 256 + frac if i >= 0 else i * 256 + frac
            if not -2 ** 31 <= raw < 2 ** 31:
                continue
            for d in ('old', 'oldc', 'mid'):
                yield {'m': base_msg([['fixed', raw], ['int', 2]], True), 'd': d}
                yield {'m': base_msg([['int', 2], ['fixed', raw]], False), 'd': d}
    for oid in (1, 2, 3, 10, 0xff000000, 0xffffffff):
        for d in ('old', 'mid', 'cur'):
            yield {'m': base_msg([['obj', 'wl_x', oid], ['new', 'wl_y', oid], ['new', None, oid]], True, oid=oid), 'd': d}
    for t in TIMES:
        for (d, q, c) in COMBOS:
            yield {'m': base_msg([['int', 1]], True, q, c, t_us=t), 'd': d}
            yield {'m': base_msg([], False, q, c, t_us=t), 'd': d}
    for iface, name in (('a', 'b'), ('wl_display', 'delete_id'), ('zwp_linux_dmabuf_v1', 'create_params'),
                        ('x1_y2', 'm_3'), ('A', 'B9'), ('_private_iface', '_hidden'), ('Xwayland_shell_V1', 'Set_Serial'),
                        ('i' * 60, 'm' * 60)):
        for (d, q, c) in COMBOS:
            yield {'m': base_msg([['int', 1]], True, q, c, iface=iface, name=name), 'd': d}
    # (v) negatives: non-message lines, and every proper prefix of one valid line
    for line in NEGATIVES:
        yield {'neg': line}
    valid = wlprint.render(base_msg([['int', 1], ['str', 'x']], True, 'q', '1'), 'cur')
    for k in range(len(valid)):
        yield {'neg': valid[:k]}
    valid = wlprint.render(base_msg([['int', 1]], False), 'old')
    for k in range(len(valid)):
        yield {'neg': valid[:k]}


# ---- decoding must not depend on what was decoded and resolved before -----------------

HISTORY_MSGS = [
    [['int', 1], ['str', 'zz_a'], ['int', 1], ['new', None, 3]],        # wl_registry.bind to zz_a
    [['int', 2], ['str', 'zz_b'], ['int', 1], ['new', None, 3]],        # the same id bound to another interface
    [['new', None, 3]], [['new', 'zz_a', 3]], [['new', 'zz_b', 3]], [['obj', 'zz_a', 3]], [['obj', 'zz_b', 3]],
    [['int', 3]], [['str', 'zz_a']], [['nil']],
]


def gen_history_cases(tier):
    for i, a in enumerate(HISTORY_MSGS):
        for j, b in enumerate(HISTORY_MSGS):
            for (d, q, c) in COMBOS_SMALL:
                for target in (('wl_registry', 2, 'bind'), ('zz_t', 3, 'msg')):
                    yield {'after': [a], 'm': base_msg(b, True, q, c, iface=target[0], oid=target[1], name=target[2]), 'd': d,
                           'after_target': list(target)}


# ---- the same decoding reached through the parser loop (a file-like object read line by line) ------------------------
# A message of 4096 bytes on the wire prints as a longer line (decimal ids, names, quotes): strings of up to ~4080
# characters are ordinary; longer lines can come from a patched libwayland and must still be one line.
LONG_LENGTHS = [100, 4000, 4040, 4060, 4083, 4096, 8192, 70000]


def gen_pipeline_cases(tier):
    for (d, q, c) in COMBOS_SMALL[1:]:
        for body in ('Café – 日本語 ±', 'plain'):
            yield {'pipeline': True, 'file_cli': True, 'd': d,
                   'm': base_msg([['obj', 'wl_display', 1], ['int', 3], ['str', body]], False, q, c, iface='wl_display', oid=1, name='error')}
    for n in LONG_LENGTHS:
        for (d, q, c) in COMBOS_SMALL:
            for body in ('x' * n, 'ab, ' * (n // 4)):
                # received wl_display.error(object, code, message) and sent wl_registry.bind(name, interface, version, id)
                yield {'pipeline': True, 'd': d,
                       'm': base_msg([['obj', 'wl_display', 1], ['int', 3], ['str', body]], False, q, c, iface='wl_display', oid=1, name='error')}
                if ',' not in body:      # the string is the interface name the new object gets
                    yield {'pipeline': True, 'd': d,
                           'm': base_msg([['int', 7], ['str', body], ['int', 1], ['new', None, 3]], True, q, c, iface='wl_registry', oid=2, name='bind')}


def evaluate_file_cli(case):
    """The same decoding through the real command line in file mode (the file is opened and decoded by the tool)."""
    import os
    import subprocess
    import tempfile
    V = []
    m, d = case['m'], case['d']
    line = wlprint.render(m, d)
    text = [a[1] for a in m['args'] if a[0] == 'str'][0]
    with tempfile.TemporaryDirectory(prefix='verif-c01-') as td:
        path = os.path.join(td, 'in.log')
        with open(path, 'w', encoding='utf-8') as f:
            f.write(wlprint.render(base_msg([['new', 'wl_registry', 2]], True, m['queue'], m['conn'], t_us=m['t_us'], iface='wl_display',
                                            oid=1, name='get_registry'), d) + '\n' + line + '\n')
        env = dict(os.environ, PYTHONDONTWRITEBYTECODE='1', PYTHONIOENCODING='utf-8', LC_ALL='C.utf8')
        p = subprocess.run(['/venv/bin/python', os.path.join(sut.REPO, 'main.py'), '-C', '-l', path], input=b'q\n', capture_output=True,
                           env=env, cwd=td, timeout=60)
        out = p.stdout.decode('utf-8', 'replace')
        if text not in out or 'wl_display@1a.error' not in out:
            V.append(Violation('decode.file_mode_string', case, {'string': text, 'shown': [l for l in out.split('\n') if '.error(' in l][:2],
                                                                 'stderr': p.stderr.decode('utf-8', 'replace')[-200:]}))
    return Eval(V, outcome=len(V), nontrivial=True)


def evaluate_pipeline(case):
    from .. import outparse
    if case.get('file_cli'):
        return evaluate_file_cli(case)
    m, d = case['m'], case['d']
    line = wlprint.render(m, d)
    V = []
    try:
        s = sut.Session()
        s.feed_line(wlprint.render(base_msg([['new', 'wl_registry', 2]], True, m['queue'], m['conn'], t_us=m['t_us'], iface='wl_display', oid=1,
                                            name='get_registry'), d))
        out, err = s.feed_line(line)
        recs = [outparse.classify(l) for l in out]
        msgs = [r for k, r in recs if k == 'message']
        want_strs = [a[1] for a in m['args'] if a[0] == 'str']
        if len(msgs) != 1 or len([1 for k, _ in recs if k not in ('notice', 'separator')]) != 1:
            V.append(Violation('decode.pipeline_split', case, {'line_length': len(line), 'items_shown': len(recs),
                                                                  'heads': [l[:80] for l in out][:4]}))
        elif len(msgs[0]['args']) != len(m['args']) or any(w not in msgs[0]['text'] for w in want_strs):
            V.append(Violation('decode.pipeline_args', case, {'line_length': len(line), 'shown_head': msgs[0]['text'][:120],
                                                                 'arity_shown': len(msgs[0]['args']), 'arity': len(m['args'])}))
    except Exception:
        V.append(sut.exc_violation(case, 'decode.exception'))
    return Eval(V, outcome=[len(line) > 4096, len(V)], nontrivial=True)


def evaluate_after_history(case):
    """Feed the earlier lines through a whole session (decoded AND resolved against a connection), then decode
    the line under test on its own: the decode must equal the structured message, whatever came before."""
    s = sut.Session()
    t = case['after_target']
    s.feed_line('[1.000] <%s>  -> wl_display@1.get_registry(new id wl_registry@2)' % (case['m']['conn'] or '1')
                if wlprint.DIALECTS[case['d']]['tags'] else '[1.000]  -> wl_display@1.get_registry(new id wl_registry@2)')
    for k, args in enumerate(case['after']):
        m = base_msg(args, True, case['m']['queue'], case['m']['conn'], t_us=2000 + k, iface=t[0], oid=t[1], name=t[2])
        s.feed_line(wlprint.render(m, case['d']))
    sut.LOG.take()
    ev = evaluate({'m': case['m'], 'd': case['d']})
    for v in ev.viols:
        v.case = case
    return ev


# ---- oracle ---------------------------------------------------------------------

_untagged = None


def _decode(line):
    from backends.libwayland_debug_output import parse
    from core.wl import message as wm
    wm.Message.base_time = 0.0
    return parse.message(line)


def _kind(a):
    return type(a).__name__


def compare(m, d, conn_id, msg, line):
    """-> list of (what, expected, observed)"""
    bad = []
    dl = wlprint.DIALECTS[d]
    if dl['tags'] and m['conn'] is not None:
        if conn_id != m['conn']:
            bad.append(('connection tag', m['conn'], conn_id))
    else:
        global _untagged
        if _untagged is None:
            _untagged = _decode('[1.000] a@1.b()')[0]
        if conn_id != _untagged:
            bad.append(('connection of untagged line', _untagged, conn_id))
    if bool(msg.sent) != m['sent']:
        bad.append(('direction', m['sent'], msg.sent))
    if msg.obj.type != m['iface'] or msg.obj.id != m['id']:
        bad.append(('target', [m['iface'], m['id']], [msg.obj.type, msg.obj.id]))
    if msg.name != m['name']:
        bad.append(('name', m['name'], msg.name))
    want_t = m['t_us'] / 1e6
    if abs(msg.timestamp - want_t) > 1e-9 * max(1.0, abs(want_t)):
        bad.append(('timestamp', want_t, msg.timestamp))
    if len(msg.args) != len(m['args']):
        bad.append(('arity', len(m['args']), [str(_kind(a)) for a in msg.args]))
        return bad
    for i, (e, a) in enumerate(zip(m['args'], msg.args)):
        k = e[0]
        got = _kind(a)
        w = 'arg%d' % i
        if k in ('int', 'uint'):
            if got != 'Int' or a.value != e[1]:
                bad.append((w, e, [got, getattr(a, 'value', None)]))
        elif k == 'fixed':
            text = wlprint.fixed_text(e[1], dl['fixed'], '.')
            if got != 'Float' or a.value != float(text):
                bad.append((w, ['fixed', text], [got, getattr(a, 'value', None)]))
        elif k == 'str':
            if got != 'String' or a.value != e[1]:
                bad.append((w, e, [got, getattr(a, 'value', getattr(a, 'string', None))]))
        elif k in ('obj', 'new'):
            if (got != 'Object' or bool(a.is_new) != (k == 'new') or a.obj.id != e[2] or a.obj.type != e[1]):
                bad.append((w, e, [got] + ([a.is_new, a.obj.type, a.obj.id] if got == 'Object' else [])))
        elif k == 'nil':
            if got != 'Null':
                bad.append((w, e, [got]))
        elif k == 'fd':
            if got != 'Fd' or a.value != e[1]:
                bad.append((w, e, [got, getattr(a, 'value', None)]))
        elif k == 'array':
            if got != 'Array':
                bad.append((w, e, [got, getattr(a, 'string', None)]))
    return bad


def classify_bad(bad, m):
    """Violation kind = the first failing field class (stable across runs)."""
    what = bad[0][0]
    if what.startswith('arg'):
        idx = int(what[3:])
        return 'decode.arg.' + m['args'][idx][0]
    return 'decode.' + what.split(' ')[0]


def evaluate(case):
    if 'neg' in case:
        line = case['neg']
        try:
            conn_id, msg = _decode(line)
        except RuntimeError:
            return Eval([], outcome='rejected', nontrivial=False)
        except Exception:
            return Eval([sut.exc_violation(case, 'negative.exception', {'line': line})])
        return Eval([Violation('negative.accepted', case, {'line': line, 'decoded_as': str(msg)})], outcome='accepted')
    m, d = case['m'], case['d']
    line = wlprint.render(m, d)
    try:
        conn_id, msg = _decode(line)
    except RuntimeError as e:
        return Eval([Violation('decode.rejected', case, {'line': line, 'error': str(e)[:200]})], outcome='rejected')
    except Exception:
        return Eval([sut.exc_violation(case, 'decode.exception', {'line': line})])
    bad = compare(m, d, conn_id, msg, line)
    kinds = sorted({a[0] for a in m['args']})
    outcome = [msg.sent, len(msg.args), [_kind(a) for a in msg.args]]
    if bad:
        return Eval([Violation(classify_bad(bad, m), case,
                               {'line': line, 'mismatches': [list(b) for b in bad[:4]]})], outcome=outcome,
                    nontrivial=len(kinds) >= 2)
    return Eval([], outcome=outcome, nontrivial=len(kinds) >= 2)


def run(run, tier, seed):
    sut.bind()
    sut.ensure_protocols()
    res = explore.prod(lambda: gen_cases(tier), evaluate, seed=seed,
                       bound={'arg_lists_len': 2 if tier == 'quick' else 3, 'string_tokens': 2 if tier == 'quick' else 3,
                              'positions': 20})
    run.add_part('lines', res)
    res2 = explore.prod(lambda: gen_history_cases(tier), evaluate_after_history, seed=seed, bound={'history': 'one earlier line, resolved'})
    run.add_part('decode_after_history', res2)
    res3 = explore.prod(lambda: gen_pipeline_cases(tier), evaluate_pipeline, seed=seed, bound={'string_lengths': LONG_LENGTHS})
    run.add_part('long_lines_through_the_parser_loop', res3)
    run.rule = ('product enumeration: printer-model lines over dialects {old, old+comma, 1.21, current+patches} x '
                'direction x queue/connection tags x argument lists; non-trivial = at least two argument kinds in the line')
    run.bound = res.bound
    run.assumptions = ['the printer model (ref/wlprint.py) is libwayland\'s wl_closure_print: bound to 1277 real log lines, '
                       'to the installed library\'s format strings and to the repository\'s libwayland patches at setup',
                       'strings: small-scope over the token alphabet; no `"` or `\\` inside strings (as the property states)']


def replay(case):
    sut.bind()
    if case.get('pipeline'):
        sut.ensure_protocols()
        return evaluate_pipeline(case).viols
    if 'after' in case:
        sut.ensure_protocols()
        return evaluate_after_history(case).viols
    return evaluate(case).viols
