"""Shared exploration for C02 / C03 (and reused by C04 / C14): well-formed message
histories on one connection, executed on the real log pipeline and compared, line
by line and state by state, with the reference object table."""
import traceback

from .. import sut, outparse, explore
from ..explore import Eval
from ..report import Violation
from ..ref import objtable as ot
from ..ref import wlprint

T0_US = 1000 * 1000 * 1000     # [1000000.000]


def times(variant, n):
    """Timestamps (µs) of the n lines of a history, prelude included."""
    mode = variant.get('time', 'step')
    if mode == 'step':
        return [T0_US + k * 100 for k in range(n)]
    if mode == 'equal':
        return [T0_US] * n
    if mode == 'gaps':   # non-decreasing, irregular, some gaps above one second
        out, t = [], T0_US
        for k in range(n):
            out.append(t)
            t += (0, 100, 2500000, 700, 0, 1000100)[k % 6]
        return out
    if mode == 'micro':   # not multiples of the displayed resolution; one quiet period of 40 minutes
        out, t = [], T0_US + 37
        for k in range(n):
            out.append(t)
            t += (40, 120, 73, 2400000031, 7, 1000111, 90, 160)[k % 8]
        return out
    if mode == 'wrap':    # libwayland's stamp is a 32-bit microsecond counter: it starts again at 0 every 71.6 minutes
        return [(2 ** 32 - 250000 + k * 100000) % 2 ** 32 for k in range(n)]
    raise ValueError(mode)


def render_history(hist, variant):
    """-> (lines, expectations, ref) for prelude + hist."""
    ref = ot.RefConn()
    evs = prelude_of(variant) + [list(e) for e in hist]
    ts = times(variant, len(evs))
    lines, exps = [], []
    for ev, t in zip(evs, ts):
        msg, exp = ot.build(ev, ref, t, server_side=variant.get('server_side', False),
                            conn=variant.get('conn'), queue=variant.get('queue'), decor=variant.get('decor'))
        exp['t_us'] = t
        lines.append(wlprint.render(msg, variant.get('dialect', 'mid')))
        exps.append(exp)
    return lines, exps, ref


def prelude_of(variant):
    return [] if variant.get('late_registry') else [list(e) for e in ot.PRELUDE]


def ref_after(hist, variant):
    ref = ot.RefConn()
    evs = prelude_of(variant) + [list(e) for e in hist]
    for ev, t in zip(evs, times(variant, len(evs))):
        ot.build(ev, ref, t)
    return ref


def message_lines(out_lines):
    recs = []
    others = []
    for l in out_lines:
        c, r = outparse.classify(l)
        if c == 'message':
            recs.append(r)
        elif c not in ('separator', 'notice'):
            others.append(l)
    return recs, others


def check_state(conn, ref, case, V):
    """Compare the connection's object table (through the Connection interface) with
    the reference."""
    probe_ids = set(ref.objs) | set(ot.CLIENT_IDS) | set(ot.SERVER_IDS) | {6, 0xffffffff}
    for oid in sorted(probe_ids):
        incs = ref.objs.get(oid, [])
        alive_n = 0
        for inc in incs:
            try:
                o = conn.retrieve_object(oid, inc.index, None)
            except RuntimeError as e:
                V.append(Violation('shape.missing', case, {'id': oid, 'incarnation': inc.index, 'error': str(e)}))
                continue
            if o.type != inc.type or o.id != oid or o.generation != inc.index:
                V.append(Violation('shape.identity', case, {
                    'expected': [inc.type, oid, inc.index], 'observed': [o.type, o.id, o.generation]}))
            if bool(o.alive) != inc.alive:
                V.append(Violation('alive.flag', case, {
                    'object': ref.label(oid, inc.index), 'expected_alive': inc.alive, 'observed_alive': o.alive}))
            if o.alive:
                alive_n += 1
        if alive_n > 1:
            V.append(Violation('alive.two_per_id', case, {'id': oid, 'alive': alive_n}))
        try:
            extra = conn.retrieve_object(oid, len(incs), None)
            V.append(Violation('shape.extra', case, {'id': oid, 'incarnations_expected': len(incs), 'extra': str(extra)}))
        except RuntimeError:
            pass
    for (oid, idx) in ref.dead:
        try:
            if conn.retrieve_object(oid, idx, None).alive:
                V.append(Violation('alive.resurrected', case, {'object': ref.label(oid, idx)}))
        except RuntimeError:
            pass
    n = len(conn.messages())
    if n != ref.nmsg:
        V.append(Violation('shape.message_count', case, {'expected': ref.nmsg, 'observed': n}))


def run_history(hist, variant, check_from=0):
    """Execute prelude + hist on a fresh pipeline; oracle on the lines with index >=
    check_from (index within hist) and on the final state.  -> (violations, outcome)"""
    case = {'history': [list(e) for e in hist], 'variant': variant}
    V = []
    lines, exps, ref = render_history(hist, variant)
    npre = len(prelude_of(variant))
    outcome = []
    try:
        s = sut.Session()
        sut.LOG.take()
        all_live = []
        for i, (line, exp) in enumerate(zip(lines, exps)):
            out, err = s.feed_line(line)
            all_live += [l for l in out if outparse.classify(l)[0] == 'message']
            logs = sut.LOG.take()
            checked = i - npre >= check_from
            recs, others = message_lines(out)
            if i == len(lines) - 1:
                outcome = [r['text'].split(': ', 1)[1] if r else None for r in recs]
            if not checked:
                continue
            step = {'step': i - npre, 'line': line}
            if len(recs) != 1:
                V.append(Violation('line.count', case, dict(step, expected=1, observed=out)))
                continue
            if others or err or logs:
                V.append(Violation('log.noise', case, dict(step, out=others, err=err, log=logs)))
            rec = recs[0]
            for what, e, o in ot.check_line(rec, exp):
                kind = {'lifespan': 'lifespan.value', 'destroyed annotation': 'annotation.presence',
                        'destroyed object': 'annotation.object'}.get(what, 'label.' + what.split(' ')[0].rstrip('0123456789'))
                V.append(Violation(kind, case, dict(step, what=what, expected=e, observed=o, shown=rec['text'])))
        live_lines = list(all_live)
        conns = s.cm.connections()
        if not lines:
            pass
        elif len(conns) != 1:
            V.append(Violation('shape.connections', case, {'expected': 1, 'observed': len(conns)}))
        else:
            conn = conns[0]
            check_state(conn, ref, case, V)
            # the message object of the last line is the very incarnation the table holds
            msgs = conn.messages()
            if msgs and hist:
                last = msgs[-1]
                want = exps[-1]['target']
                got = outparse.label({'type': last.obj.type, 'id': last.obj.id,
                                      'gen': _letters(last.obj.generation)})
                if got != want or not last.obj.resolved():
                    V.append(Violation('label.api_target', case, {'expected': want, 'observed': got}))
        if lines and not V:
            # what was shown live is what a later listing shows, also after the input has ended (lifespans included)
            s.close()
            o, _ = s.cmd('list *')
            listed = [l for l in o if outparse.classify(l)[0] == 'message']
            if listed != live_lines:
                k = next((i for i, (a, b) in enumerate(zip(listed, live_lines)) if a != b), min(len(listed), len(live_lines)))
                V.append(Violation('lifespan.listing_differs_from_live', case, {'live': live_lines[k:k + 1], 'listed_after_close': listed[k:k + 1]}))
    except Exception:
        V.append(sut.exc_violation(case))
    return V, outcome


def _letters(gen):
    from ..ref import letters
    return None if gen is None else letters.word(gen)


def nontrivial(hist):
    """A history is non-trivial if some id gets a second incarnation."""
    seen = set()
    for e in hist:
        if e[0] in ('creq', 'cev', 'bind'):
            if e[1] in seen:
                return True
            seen.add(e[1])
    return False


def make_expand(variant, kinds=None, alphabet_kw=None):
    """BFS expansion: enabled events come from the reference state reached by hist."""
    alphabet_kw = alphabet_kw or {}
    if variant.get('server_ids'):
        alphabet_kw = dict(alphabet_kw, server_ids=tuple(variant['server_ids']))

    if variant.get('late_registry'):
        alphabet_kw = dict(alphabet_kw, late_registry=True, client_ids=(2, 3), server_ids=(ot.SERVER_BASE,), with_foreign=False)

    def expand(hist):
        ref = ref_after(hist, variant)
        out = []
        for ev in ot.enabled(ref, **alphabet_kw):
            h2 = list(hist) + [ev]
            V, outcome = run_history(h2, variant, check_from=len(hist))
            if kinds is not None:
                V = [v for v in V if v.kind.split('.')[0] in kinds]
            key = ref_after(h2, variant).key()
            out.append((ev, key, Eval(V, outcome=outcome, nontrivial=nontrivial(h2),
                                      transitions=len(h2) + len(prelude_of(variant)))))
        return out
    return expand


VARIANTS = {
    # the last id of the server range, and the last but one
    'client_top_server_ids': {'dialect': 'mid', 'server_ids': [0xffffffff, 0xfffffffe]},
    # creating / mentioning messages carry strings (with separators inside), a nil and a number after the argument that
    # matters; strings containing `"` are outside C01's alphabet and therefore not used here either
    'client_decorated': {'dialect': 'cur', 'decor': [['str', '13 panel, (x'], ['nil'], ['int', 2], ['str', 'a, b)']]},
    # C02 only (C03 quantifies over non-decreasing stamps): the counter wraps right after the first explored event
    'client_wrap_times': {'dialect': 'mid', 'time': 'wrap'},
    'client_micro_times': {'dialect': 'mid', 'time': 'micro'},
    'late_registry': {'dialect': 'mid', 'late_registry': True},
    'late_registry_server': {'dialect': 'old', 'late_registry': True, 'server_side': True, 'time': 'equal'},
    'client': {'dialect': 'mid'},
    'server': {'dialect': 'mid', 'server_side': True},
    'client_equal_times': {'dialect': 'old', 'time': 'equal'},
    'server_gaps_tagged': {'dialect': 'cur', 'server_side': True, 'time': 'gaps', 'conn': '7', 'queue': 'Default Queue'},
}


def deep_chain(variant, n_client, n_server):
    """One long history reusing a client id n_client times and a server id n_server
    times (generation letters beyond z and zz)."""
    hist = []
    for k in range(n_client):
        hist += [['creq', 3, ot.TYPES[k % 2]], ['use', 3], ['del', 3]]
    for k in range(n_server):
        hist += [['cev', ot.SERVER_BASE, ot.TYPES[k % 2]]]
    hist += [['use', 3], ['ment', ot.SERVER_BASE], ['use', ot.SERVER_BASE]]
    return hist
