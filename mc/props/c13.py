"""C13 - file, pipe and run modes show the same thing; run mode is transparent.

Part 1 (PROD, real processes): the real command line in the three modes x streams x
--supress x PYTHONHASHSEED; stdout / stderr must be identical across modes and seeds;
run mode: exit status = the program's (0..255), WAYLAND_DEBUG=1, stdout untouched.
Part 2 (DEV): the parser reads through Python's own TextIOWrapper(BufferedReader(raw))
whose raw.readinto returns scripted short reads: every placement of <=2 / <=3 cuts at
every byte offset; output identical to the uncut run.
Part 3 (ILV, mc/sched.py): all 2-thread schedules of run_program with <=2 / <=3
preemptions over a model pipe and a scripted child."""
import io
import itertools
import os
import re
import subprocess
import tempfile

from .. import sut, explore
from ..explore import Eval, HarnessError
from ..report import Violation
from ..ref import wlprint
from . import c04, c08

PROMPT = 'wl debug $ '


def streams():
    base = c08.base_streams()
    three = [l for (_, l, _) in c04.render_ilv({'scripts': ['b3', 'd3', 'f3'], 'order': [0, 1, 2, 0, 1, 2, 0, 1, 2]})[0]]
    s = {
        'clean': '\n'.join(base['s1_mid']) + '\n',
        'chatter': 'starting up\n' + '\n'.join(base['s3_old_gaps_strings'][:3]) + '\n\n  some noise [1] (x)\n' +
                   '\n'.join(base['s3_old_gaps_strings'][3:]) + '\nbye\n',
        'three_connections': '\n'.join(three) + '\n',
        'unterminated': '\n'.join(base['s4_cur_server']),
        'empty': '',
        'odd_separators': base['s1_mid'][0] + '\nform\x0cfeed and \x1c \x85 inside\n' +
                          '[5000000.100] wl_registry@2.global(1, "line\u2028sep \u2029 in a string", 4)\n' + base['s1_mid'][2] + '\n',
    }
    big = []
    for i in range(700):
        big.append('[%7u.%03u] wl_registry@2.global(%d, "iface_with_a_rather_long_name_%d_%s", 1)' % (8000000 + i, i % 1000, i, i, 'x' * 40))
    s['big_70k'] = base['s1_mid'][0] + '\n' + '\n'.join(big) + '\n'
    # bytes that are not UTF-8: a Latin-1 window title (libwayland prints strings raw), a Latin-1 line of the program's own,
    # a lone continuation byte, a truncated multi-byte character at the very end
    s['not_utf8'] = (base['s1_mid'][0].encode() + b'\ncaf\xe9: starting up\n' +
                     b'[5000000.100]  -> xdg_toplevel@7.set_title("Caf\xe9 M\xfcller \x80")\n' + base['s1_mid'][2].encode() + b'\ntail \xe2\x82')
    return s


# ---- part 1: real command line ------------------------------------------------------

def run_cli(mode, text, supress, seed, status=0, workdir=None, parent_wd=None, options=()):
    d = workdir
    path = os.path.join(d, 'in.log')
    data = text if isinstance(text, bytes) else text.encode()
    with open(path, 'wb') as f:
        f.write(data)
    libdir = os.path.join(d, 'lib dir')
    if '<LIBDIR>' in options:
        os.makedirs(libdir, exist_ok=True)
        for n in ('libwayland-client.so', 'libwayland-server.so'):
            open(os.path.join(libdir, n), 'ab').close()
        options = [libdir if o == '<LIBDIR>' else o for o in options]
    env = dict(os.environ, PYTHONHASHSEED=str(seed), PYTHONDONTWRITEBYTECODE='1')
    env.pop('WAYLAND_DEBUG', None)
    if parent_wd is not None:
        env['WAYLAND_DEBUG'] = parent_wd      # whatever wayland-debug itself was started with, the program gets 1
    main_py = os.path.join(sut.REPO, 'main.py')
    opts = (['--supress'] if supress else []) + list(options)
    if mode == 'file':
        argv, stdin = ['/venv/bin/python', main_py] + opts + ['-l', path], b'q\n'
    elif mode == 'pipe':
        argv, stdin = ['/venv/bin/python', main_py] + opts + ['-p'], data
    else:
        child = 'echo "child stdout marker"; echo "WD=$WAYLAND_DEBUG" > "$2"; cat "$1" >&2; exit %d' % status
        argv, stdin = ['/venv/bin/python', main_py] + opts + ['-r', '/bin/sh', '-c', child, 'sh', path, os.path.join(d, 'env.txt')], b'q\n'
    p = subprocess.run(argv, input=stdin, capture_output=True, env=env, cwd=d, timeout=120)
    p.stdout, p.stderr = p.stdout.decode('utf-8', 'backslashreplace'), p.stderr.decode('utf-8', 'backslashreplace')
    out = p.stdout.replace(PROMPT, '')
    marker = 'child stdout marker\n' in out
    out = out.replace('child stdout marker\n', '', 1)
    err = '\n'.join(l for l in p.stderr.split('\n') if 'is not a directory, will use the system' not in l)
    return out, err, p.returncode, marker


def eval_modes(case):
    V = []
    text = streams()[case['stream']]
    ref = None
    outs = {}
    with tempfile.TemporaryDirectory(prefix='verif-c13-') as d:
        try:
            for mode in ('file', 'pipe', 'run'):
                for seed in case['seeds']:
                    if os.path.exists(os.path.join(d, 'env.txt')):
                        os.unlink(os.path.join(d, 'env.txt'))
                    out, err, rc, marker = run_cli(mode, text, case['supress'], seed, status=case['status'], workdir=d,
                                                   parent_wd=case.get('parent_wd'), options=case.get('options', ()))
                    if case.get('stdout_only'):
                        err = ''      # with -b, pipe mode says on standard error that it cannot halt: the display is standard output
                    outs[(mode, seed)] = (out, err)
                    want_rc = case['status'] if mode == 'run' else 0
                    if rc != want_rc:
                        V.append(Violation('modes.exit_status', case, {'mode': mode, 'seed': seed, 'expected': want_rc, 'observed': rc,
                                                                       'stderr': err[-300:]}))
                    if mode == 'run':
                        envtxt = open(os.path.join(d, 'env.txt')).read() if os.path.exists(os.path.join(d, 'env.txt')) else None
                        if not marker or envtxt != 'WD=1\n':
                            V.append(Violation('modes.run_transparency', case, {'stdout_marker_seen': marker, 'child_env': envtxt}))
                    if ref is None:
                        ref = (mode, seed, out, err)
                    elif (out, err) != (ref[2], ref[3]):
                        which = 'stdout' if out != ref[2] else 'stderr'
                        a, b = (ref[2], out) if which == 'stdout' else (ref[3], err)
                        la, lb = a.split('\n'), b.split('\n')
                        k = next((i for i, (x, y) in enumerate(zip(la, lb)) if x != y), min(len(la), len(lb)))
                        kind = 'modes.differs_across_seeds' if mode == ref[0] else 'modes.differs_across_modes'
                        if mode != ref[0] and outs.get((mode, ref[1])) == (ref[2], ref[3]):
                            kind = 'modes.differs_across_seeds'
                        V.append(Violation(kind, case, {'stream': which, 'reference': [ref[0], ref[1]], 'this': [mode, seed],
                                                        'first_difference_line': k, 'reference_lines': la[k:k + 2], 'this_lines': lb[k:k + 2]}))
                        break
        except subprocess.TimeoutExpired:
            V.append(Violation('modes.timeout', case, {}))
    return Eval(V, outcome=[case['stream'], case['supress'], len(V)], nontrivial=bool(text), transitions=3 * len(case['seeds']))


def eval_run_transparency(case):
    """Run mode only (real child): (a) the stream written in two writes with a pause, the cut inside a
    multi-byte character / inside a line; the display must equal file mode.  (b) program arguments that
    look like wayland-debug's own markers arrive verbatim."""
    V = []
    main_py = os.path.join(sut.REPO, 'main.py')
    env = dict(os.environ, PYTHONHASHSEED='0', PYTHONDONTWRITEBYTECODE='1')
    env.pop('WAYLAND_DEBUG', None)
    with tempfile.TemporaryDirectory(prefix='verif-c13-') as d:
        try:
            if case['what'] == 'split_write':
                data = 'Café – menü [1] (x)\n[1000.000]  -> wl_display@1.sync(new id wl_callback@3)\nnaïve tail'.encode()
                cut = case['cut']
                a, b = os.path.join(d, 'a'), os.path.join(d, 'b')
                open(a, 'wb').write(data[:cut])
                open(b, 'wb').write(data[cut:])
                open(os.path.join(d, 'in.log'), 'wb').write(data)
                pf = subprocess.run(['/venv/bin/python', main_py, '-l', os.path.join(d, 'in.log')], input='q\n', capture_output=True,
                                    text=True, env=env, cwd=d, timeout=60)
                pr = subprocess.run(['/venv/bin/python', main_py, '-r', '/bin/sh', '-c', 'cat "$1" >&2; sleep 0.3; cat "$2" >&2', 'sh', a, b],
                                    input='q\n', capture_output=True, text=True, env=env, cwd=d, timeout=60)
                if pf.stdout != pr.stdout:
                    la, lb = pf.stdout.split('\n'), pr.stdout.split('\n')
                    k = next((i for i, (x, y) in enumerate(zip(la, lb)) if x != y), min(len(la), len(lb)))
                    V.append(Violation('modes.split_write', case, {'file_mode': la[k:k + 2], 'run_mode': lb[k:k + 2]}))
            elif case['what'] == 'program_with_blank':
                # the program's own path contains a blank (and a quote); it is started as named, with or without arguments
                pdir = os.path.join(d, 'My "App')
                os.makedirs(pdir)
                prog = os.path.join(pdir, 'show me')
                with open(prog, 'w') as f:
                    f.write('#!/bin/sh\nprintf "%s\\n" "$0" "$@" > "' + os.path.join(d, 'seen') + '"\nexit 9\n')
                os.chmod(prog, 0o755)
                p = subprocess.run(['/venv/bin/python', main_py, '-r', prog] + case['words'], input='q\n', capture_output=True, text=True,
                                   env=env, cwd=d, timeout=60)
                seen = open(os.path.join(d, 'seen')).read().split('\n')[:-1] if os.path.exists(os.path.join(d, 'seen')) else None
                if seen != [prog] + case['words'] or p.returncode != 9:
                    V.append(Violation('modes.run_arguments', case, {'program': prog, 'program_saw': seen, 'returncode': p.returncode,
                                                                     'stderr': p.stderr[-300:]}))
            elif case['what'] == 'lingering':
                # the program closes its standard error and exits well over a second later: its output and its status count
                p = subprocess.run(['/venv/bin/python', main_py, '-r', '/bin/sh', '-c',
                                    'echo "[1000.000]  -> wl_display@1.sync(new id wl_callback@3)" >&2; exec 2>&-; sleep %s; exit 7' % case['seconds']],
                                   input='q\n', capture_output=True, text=True, env=env, cwd=d, timeout=60)
                if p.returncode != 7 or 'wl_display@1a.sync' not in sut.strip_sgr(p.stdout):
                    V.append(Violation('modes.lingering_program', case, {'returncode': p.returncode, 'expected_returncode': 7,
                                                                          'stdout': p.stdout[-300:], 'stderr': p.stderr[-300:]}))
            else:
                words = case['words']
                prog = case.get('program', '/bin/sh')
                outf = os.path.join(d, 'argv')
                p = subprocess.run(['/venv/bin/python', main_py, '-r', prog, '-c', 'out="$1"; shift; tr "\\0" "\\n" < /proc/$$/cmdline | head -n 1 > "$out.argv0"; : > "$out"; for a in "$@"; do printf "%s\\n" "$a" >> "$out"; done; exit 4',
                                    'sh', outf] + words, input='q\n', capture_output=True, text=True, env=env, cwd=d, timeout=60)
                got = open(outf).read().split('\n')[:-1] if os.path.exists(outf) else None
                argv0 = open(outf + '.argv0').read().strip() if os.path.exists(outf + '.argv0') else None
                if got != words or p.returncode != 4 or argv0 != prog:
                    V.append(Violation('modes.run_arguments', case, {'program_saw': got, 'program_name_given': prog, 'program_saw_as_argv0': argv0,
                                                                     'returncode': p.returncode, 'stderr': p.stderr[-300:]}))
        except subprocess.TimeoutExpired:
            V.append(Violation('modes.timeout', case, {}))
    return Eval(V, outcome=[case['what'], len(V)], nontrivial=True, transitions=2)


def gen_run_transparency(tier):
    data_len = 104
    cuts = [3, 4, 5, 9, 10, 20, 21, 22, 60, 95, 99, 100] if tier == 'quick' else list(range(1, data_len))
    for c in cuts:
        yield {'what': 'split_write', 'cut': c}
    for words in (['-g'], ['--gdb', 'x'], ['-lg'], ['-r', '-p'], ['a b', '-Cg', '--run'], ['-f', 'wl_pointer', '-l', 'file'], [],
                  ['--title', '', '-f', 'x'], ['', ''], ['x', ''], ['--flag', '--', '-r', 'positional', '--'], ['--'],
                  ['-lrt'], ['-xrf', 'archive.tar'], ['-geometry', '80x24', '-fg', 'red'], ['-rn', '-gx'], ['-display', ':0', '-h', '--help'],
                  ['-v', '-C', '--no-color', '-s', '--supress', '-d', 'x', '-b', 'y', '--libwayland', 'z']):
        yield {'what': 'arguments', 'words': words}
    # a bare program name is looked up on PATH by the system and reaches the program as typed
    yield {'what': 'arguments', 'words': ['x'], 'program': 'sh'}
    yield {'what': 'lingering', 'seconds': 1.4}
    yield {'what': 'program_with_blank', 'words': []}
    yield {'what': 'program_with_blank', 'words': ['one two']}


def gen_modes(tier):
    seeds = [0, 1, 2] if tier == 'quick' else list(range(8))
    for name in streams():
        for supress in (False, True):
            yield {'stream': name, 'supress': supress, 'seeds': seeds, 'status': 0}
    # the same display also under a filter and a breakpoint matcher (file and run mode mark the matching messages and
    # prompt at the end; pipe mode has no prompt to halt at but shows the same lines)
    for options in (['-f', 'wl_surface, wl_registry'], ['-b', 'wl_surface'], ['-f', '! wl_registry', '-b', '.get_registry']):
        yield {'stream': 'clean', 'supress': False, 'seeds': [0], 'status': 0, 'options': options, 'stdout_only': True}
    for wd in ('0', 'server', ''):
        yield {'stream': 'clean', 'supress': False, 'seeds': [0], 'status': 0, 'parent_wd': wd}
    # a directory with the patched libwayland is in use (--libwayland DIR; the same as after resources/get-libwayland.sh)
    yield {'stream': 'clean', 'supress': False, 'seeds': [0], 'status': 0, 'options': ['--libwayland', '<LIBDIR>']}
    yield {'stream': 'clean', 'supress': False, 'seeds': [0], 'status': 5, 'options': ['--libwayland', '<LIBDIR>'], 'parent_wd': 'client'}
    statuses = [1, 2, 37, 99, 126, 127, 255] if tier == 'quick' else list(range(1, 256))
    for st in statuses:
        yield {'stream': 'unterminated' if st % 2 else 'clean', 'supress': False, 'seeds': [0], 'status': st}


# ---- part 2: chunked reads -------------------------------------------------------------

class ScriptedRaw(io.RawIOBase):
    def __init__(self, data, cuts):
        self.data = data
        self.bounds = sorted(set(cuts)) + [len(data)]
        self.pos = 0

    def readable(self):
        return True

    def readinto(self, b):
        if self.pos >= len(self.data):
            return 0
        end = next(x for x in self.bounds if x > self.pos)
        n = min(len(b), end - self.pos)
        b[:n] = self.data[self.pos:self.pos + n]
        self.pos += n
        return n


CHUNK_STREAMS = {
    'two_lines_tail': ('[1000.000]  -> wl_display@1.sync(new id wl_callback@3)\n[1000.100] wl_callback@3.done(1)\nlast').encode(),
    'multibyte': ('héllo wörld\n[1000.000]  -> wl_display@1.get_registry(new id wl_registry@2)\n€\n').encode(),
    'tagged': ('[1000.000] <1>  -> wl_display#1.sync(new id wl_callback#3)\n\n[1000.100] <2> wl_display#1.error(nil, 1, "a, b")\n').encode(),
}


def read_chunked(data, cuts):
    import main as wd_main
    import sys
    from core import ConnectionManager, matcher
    from core.output import Output, stream
    from frontends.tui import Controller
    sut.reset_globals()
    sut.ensure_protocols()
    out, err = stream.String(), stream.String()
    o = Output(False, True, out, err)
    cm = ConnectionManager()
    Controller(o, cm, matcher.always, matcher.never)
    saved = sys.stdin
    sys.stdin = io.TextIOWrapper(io.BufferedReader(ScriptedRaw(data, cuts)), encoding='utf-8')
    try:
        wd_main.piped_input_main(o, cm)
    finally:
        sys.stdin = saved
    return out.buffer, err.buffer


_uncut = {}


def eval_chunks(case):
    V = []
    data = CHUNK_STREAMS[case['stream']]
    try:
        if case['stream'] not in _uncut:
            _uncut[case['stream']] = read_chunked(data, [])
        got = read_chunked(data, case['cuts'])
        if got != _uncut[case['stream']]:
            V.append(Violation('chunks.differs', case, {'uncut': _uncut[case['stream']][0].split('\n')[:6], 'cut': got[0].split('\n')[:6],
                                                        'err': got[1][:300]}))
    except Exception:
        V.append(sut.exc_violation(case))
    return Eval(V, outcome=len(V), nontrivial=len(case['cuts']) >= 2, transitions=len(case['cuts']) + 1)


def gen_chunks(tier):
    k = 2 if tier == 'quick' else 3
    for name, data in CHUNK_STREAMS.items():
        for n in range(0, k + 1):
            for cuts in itertools.combinations(range(1, len(data)), n):
                yield {'stream': name, 'cuts': list(cuts)}


# ---- part 3: thread schedules --------------------------------------------------------------

L1 = '[1000.000]  -> wl_display@1.sync(new id wl_callback@3)\n'
L2 = '[1000.100] wl_callback@3.done(1)\n'
SCRIPTS = {
    'one_write': [L1 + L2],
    'split_mid_line_tail': [L1 + L2[:9], L2[9:] + 'last'],
    'three_writes': [L1, 'noise\n', L2],
    'no_output': [],
    # the program closes its standard error (daemonises, `exec 2>&-`) and only exits two seconds later: its status still counts
    'closes_stderr_then_lingers': [L1 + L2, ('close',), ('sleep', 2.0)],
    'lingers_quietly': [L1, ('sleep', 2.0), L2],
}


def twin_output(text):
    from core import ConnectionManager, matcher
    from core.output import Output, stream
    from frontends.tui import Controller
    from backends.libwayland_debug_output import parse
    sut.reset_globals()
    out, err = stream.String(), stream.String()
    o = Output(False, True, out, err)
    cm = ConnectionManager()
    Controller(o, cm, matcher.always, matcher.never)
    parse.into_sink(io.StringIO(text), o, cm)
    return out.buffer, err.buffer


def _schedule_env(case):
    """-> (run_one, judge) for one (script, status, cap) configuration"""
    from .. import sched
    from backends.libwayland_debug_output import runner
    from core import ConnectionManager, matcher
    from core.output import Output, stream
    from frontends.tui import Controller, Arguments
    script = SCRIPTS[case['script']]
    status, cap = case['status'], case['cap']
    want_out, want_err = twin_output(''.join(t for t in script if isinstance(t, str)))

    def run_one(choices):
        sut.reset_globals()
        out, err = stream.String(), stream.String()
        o = Output(False, True, out, err)
        cm = ConnectionManager()
        ctl = Controller(o, cm, matcher.always, matcher.never)
        a = Arguments.default()
        a.command_args = ['prog', '-r', '--gdb', 'a b']
        if case.get('libdir'):
            a.wayland_lib_dir = case['libdir']
        prompts = []

        def input_func(p):
            prompts.append(len(out.buffer))
            return 'q'
        res, S, obs = sched.execute(choices, runner, lambda: runner.run_program(o, a, cm, ctl, ctl, input_func), script, status, cap)
        return (res, out.buffer, err.buffer, prompts, obs), S

    def judge(result, sc):
        res, out, err, prompts, obs = result
        started = [v for k, v in obs if k == 'child_started']
        helper_exc = [v for k, v in obs if k == 'helper_exception']
        if res[0] == 'seam' or any(k == 'seam' for k, v in obs):
            return 'seam'      # the shim cannot stand in for what the runner now uses: skipped, never a violation
        if res[0] != 'ok':
            return [Violation('schedule.' + res[0], sc, {'detail': res[1]})]
        if helper_exc:
            return [Violation('schedule.helper_exception', sc, {'exception': helper_exc})]
        if res[1] != status:
            return [Violation('schedule.exit_status', sc, {'expected': status, 'returned': res[1]})]
        if out != want_out or err != want_err:
            return [Violation('schedule.output', sc, {'expected': want_out.split('\n'), 'observed': out.split('\n')})]
        if prompts != [len(want_out)]:
            return [Violation('schedule.prompt_before_output', sc, {'prompt_at': prompts, 'output_length': len(want_out)})]
        if len(started) != 1 or started[0]['args'] != ['prog', '-r', '--gdb', 'a b'] or started[0]['WAYLAND_DEBUG'] != '1' \
                or started[0]['stdout_redirected'] or started[0]['stderr'] != 101:
            return [Violation('schedule.child_start', sc, {'observed': started})]
        return []
    return run_one, judge


def eval_schedules(case):
    from .. import sched
    from backends.libwayland_debug_output import runner
    V = []
    if not all(hasattr(runner, n) for n in ('os', 'subprocess', 'threading')):
        return Eval([], outcome='seam_missing', nontrivial=False)
    nsched = 0
    outcomes = set()
    try:
        run_one, judge = _schedule_env(case)
        if 'schedule' in case:      # replay of one recorded schedule
            result, S = run_one(case['schedule'])
            again, _ = run_one(case['schedule'])
            if again[:4] != result[:4]:
                raise HarnessError('schedule replay is not deterministic for %r' % (case,))
            j = judge(result, case)
            return Eval([] if j == 'seam' else j, transitions=1)
        first = True
        for trace, result, S in sched.explore_schedules(run_one, case['bound']):
            nsched += 1
            if first:
                # replaying a recorded schedule must give identical observations
                again, _ = run_one(trace)
                if again[:4] != result[:4]:
                    raise HarnessError('schedule replay is not deterministic for %r' % (case,))
                first = False
            outcomes.add((result[0], result[1]))
            j = judge(result, dict(case, schedule=trace))
            if j == 'seam':
                return Eval([], outcome='seam_missing', nontrivial=False, transitions=nsched)
            V += j
            if len(V) >= 3:
                break
    except sched.BadChoice as e:
        raise HarnessError('schedule prefix diverged while replaying: %s' % e)
    except HarnessError:
        raise
    except Exception:
        V.append(sut.exc_violation(case))
    return Eval(V, outcome=sorted(map(repr, outcomes))[:3], nontrivial=nsched > 1, transitions=nsched, validated=nsched)


def gen_schedules(tier):
    bound = 2 if tier == 'quick' else 3
    for name in SCRIPTS:
        for status in (0, 37):
            for cap in (1, 10 ** 9):
                yield {'script': name, 'status': status, 'cap': cap, 'bound': bound}
    # a libwayland directory is in use
    yield {'script': 'three_writes', 'status': 37, 'cap': 1, 'bound': bound, 'libdir': '/opt/wayland build/src'}


def run(run, tier, seed):
    sut.bind()
    sut.ensure_protocols()
    res = explore.prod(lambda: gen_schedules(tier), eval_schedules, seed=seed,
                       bound={'preemptions': 2 if tier == 'quick' else 3, 'scripts': list(SCRIPTS), 'pipe_capacity': [1, 'unbounded']})
    res.states = res.transitions
    run.add_part('thread_schedules', res)
    res = explore.prod(lambda: gen_chunks(tier), eval_chunks, seed=seed, bound={'cuts': 2 if tier == 'quick' else 3})
    run.add_part('chunked_reads', res)
    res = explore.prod(lambda: gen_modes(tier), eval_modes, seed=seed,
                       bound={'hashseeds': 3 if tier == 'quick' else 8, 'statuses': 5 if tier == 'quick' else 256})
    run.add_part('modes_cli', res)
    res = explore.prod(lambda: gen_run_transparency(tier), eval_run_transparency, seed=seed,
                       bound={'split_write_cuts': 12 if tier == 'quick' else 'every byte'})
    run.add_part('run_mode_real_child', res)
    run.rule = ('schedules: every 2-thread schedule of run_program with at most k preemptions (scheduling point = every line '
                'of runner.py and every model-pipe operation) for 4 child scripts x 2 statuses x 2 pipe capacities; chunks: '
                'every placement of <=k cuts at every byte offset of 3 streams; modes: real CLI in 3 modes x 6 streams x '
                'suppress x hash seeds, and exit statuses; non-trivial = more than one schedule / two cuts / non-empty stream')
    run.bound = {'preemptions': 2 if tier == 'quick' else 3, 'cuts': 2 if tier == 'quick' else 3}
    run.assumptions = ['the model pipe and scripted child stand for the OS pipe and the real child in the schedule part; the '
                       'modes part runs the real ones', 'line granularity is sufficient under the GIL',
                       'real-time delays between writes are covered by the two extremes plus all model-pipe interleavings']


def replay(case):
    sut.bind()
    sut.ensure_protocols()
    if 'cuts' in case:
        return eval_chunks(case).viols
    if 'what' in case:
        return eval_run_transparency(case).viols
    if 'script' in case:
        return eval_schedules(case).viols
    return eval_modes(case).viols
