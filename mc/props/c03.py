"""C03 - object lifetimes: alive from creation to delete_id, never resurrected;
delete_id lines annotated with exactly the destroyed object and its lifespan.

Same exploration as C02 (client-side and server-side logs, several timestamp
shapes); oracle = reference lifetimes."""
from .. import sut
from . import histcheck as hc
from . import c02

KINDS = {'alive', 'lifespan', 'annotation', 'line', 'exception', 'shape'}


def run(run, tier, seed):
    c02.run(run, tier, seed, kinds=KINDS, pid='C03')
    run.rule = run.rule + '; C03 oracle: alive flags of every incarnation, at most one alive per id, dead stays dead, ' \
        'annotation exactly on wl_display.delete_id lines with lifespan = destroy time - create time'


def replay(case):
    sut.bind()
    sut.ensure_protocols()
    V, _ = hc.run_history(case['history'], case['variant'], check_from=0)
    return [v for v in V if v.kind.split('.')[0] in KINDS]
