"""C06 - the live view shows exactly the messages matching the current filter (and the
selected connection); every message is recorded; changes affect only later messages.

BFS over histories of message events (two connections) and commands (`filter ...`,
`connection ...`) from four initial filters.  Unmerged to a small depth (pure depth:
every change point), merged deeper on (printed filter, selection, object state).
Oracle: an unfiltered, unselected twin pipeline gives the canonical line of each
message; the reference filter is C12's accumulated predicate with hand denotations."""
import traceback

from .. import sut, explore, outparse
from ..explore import Eval
from ..report import Violation
from ..ref import matchsem as ms
from . import c12

INITIAL = ['*', 'wl_pointer', '! .motion', '!', 'wl_surface.destroyed']
COMMANDS = ['filter wl_pointer', 'filter ! .motion', 'filter *', 'connection A', 'connection B', 'connection all',
            'connection zz', 'filter [', 'filter B:', 'list B: wl_surface', 'connection a']
CMD_REF = {'filter wl_pointer': ('wl_pointer', ['wl_pointer'], []), 'filter ! .motion': ('! .motion', [], ['.motion']),
           'filter *': ('*', ['*'], []), 'filter B:': ('B:', ['B:'], [])}
T = 9000000000


def _u(conn, sent, iface, oid, name, args):
    return {'sent': sent, 'iface': iface, 'id': oid, 'name': name, 'args': args, 'queue': None, 'conn': conn}


def prelude(conn):
    return [
        _u(conn, True, 'wl_display', 1, 'get_registry', [['new', 'wl_registry', 2]]),
        _u(conn, True, 'wl_registry', 2, 'bind', [['int', 1], ['str', 'wl_compositor'], ['int', 4], ['new', None, 3]]),
        _u(conn, True, 'wl_compositor', 3, 'create_surface', [['new', 'wl_surface', 4]]),
        _u(conn, True, 'wl_registry', 2, 'bind', [['int', 2], ['str', 'wl_seat'], ['int', 5], ['new', None, 5]]),
        _u(conn, True, 'wl_seat', 5, 'get_pointer', [['new', 'wl_pointer', 6]]),
    ]


MSG_KINDS = {'1': ['motion', 'button', 'commit', 'create', 'destroy', 'orphan', 'appid', 'cbnew', 'cbdel'], '2': ['motion', 'commit', 'orphan'],
             '3': ['sync']}       # a third connection: it opens whenever its first message arrives, also after a selection was made


def message_for(conn, kind, created):
    """created: list of live ids made by 'create' on this connection (mutated)."""
    if kind == 'motion':
        return _u(conn, False, 'wl_pointer', 6, 'motion', [['int', 1], ['fixed', 256], ['fixed', 512]])
    if kind == 'button':
        return _u(conn, False, 'wl_pointer', 6, 'button', [['int', 2], ['int', 3], ['int', 272], ['int', 1]])
    if kind == 'commit':
        return _u(conn, True, 'wl_surface', 4, 'commit', [])
    if kind == 'create':
        created.append(20)
        return _u(conn, True, 'wl_compositor', 3, 'create_surface', [['new', 'wl_surface', 20]])
    if kind == 'destroy':
        created.remove(20)
        return _u(conn, False, 'wl_display', 1, 'delete_id', [['int', 20]])
    if kind == 'cbnew':       # an object of another type that is destroyed by the same kind of message
        created.append(21)
        return _u(conn, True, 'wl_display', 1, 'sync', [['new', 'wl_callback', 21]])
    if kind == 'cbdel':
        created.remove(21)
        return _u(conn, False, 'wl_display', 1, 'delete_id', [['int', 21]])
    if kind == 'sync':
        created.append('s')
        return _u(conn, True, 'wl_display', 1, 'sync', [['new', 'wl_callback', 100 + len(created)]])
    if kind == 'appid':       # connection A announces the app id "b": `connection B` must still mean the connection named B
        return _u(conn, True, 'zz_q', 78, 'set_app_id', [['str', 'b']])
    if kind == 'orphan':      # a message on an id the log never showed being created (stays unresolved)
        return _u(conn, True, 'zz_q', 77, 'foo', [])
    raise ValueError(kind)


def enabled_events(hist):
    created = {'1': set(), '2': set(), '3': set()}
    for e in hist:
        if e[0] == 'm' and e[2] in ('create', 'cbnew'):
            created[e[1]].add(e[2])
        if e[0] == 'm' and e[2] in ('destroy', 'cbdel'):
            created[e[1]].discard({'destroy': 'create', 'cbdel': 'cbnew'}[e[2]])
    evs = []
    for conn in ('1', '2', '3'):
        for k in MSG_KINDS[conn]:
            if k in ('create', 'cbnew') and k in created[conn]:
                continue
            if k in ('destroy', 'cbdel') and {'destroy': 'create', 'cbdel': 'cbnew'}[k] not in created[conn]:
                continue
            evs.append(['m', conn, k])
    evs += [['c', c] for c in COMMANDS]
    return evs


def run_hist(init, hist, check_from=0):
    case = {'init': init, 'history': [list(e) for e in hist]}
    V = []
    key = None
    try:
        # structured messages in arrival order (prelude of both connections first)
        created = {'1': [], '2': [], '3': []}
        msgs = prelude('1') + prelude('2')
        npre = len(msgs)
        for e in hist:
            if e[0] == 'm':
                msgs.append(message_for(e[1], e[2], created[e[1]]))
        lines, views = ms.build_universe(sut.REPO, msgs)
        twin = sut.Session()
        canon = []
        for l in lines:
            o, _ = twin.feed_line(l)
            canon.append([x for x in o if outparse.classify(x)[0] == 'message'])
        s = sut.Session(filt=None if init == '*' else init)
        ref = c12.RefAcc(init)
        selection = None
        k = 0

        def feed_and_check(step_no, checked):
            nonlocal k
            out, err = s.feed_line(lines[k])
            v = views[k]
            want = ms.and3(ref.selects(v), selection is None or v.conn == selection)
            got = [x for x in out if outparse.classify(x)[0] == 'message']
            extra = [x for x in out if outparse.classify(x)[0] not in ('message', 'notice', 'separator')]
            if checked and want is not None:
                exp = canon[k] if want else []
                if got != exp or extra or err:
                    V.append(Violation('live.shown' if got and not exp else ('live.hidden' if exp and not got else 'live.altered'),
                                       case, {'step': step_no, 'line': lines[k], 'expected': exp, 'observed': got,
                                              'other_output': extra, 'err': err, 'filter': ref.key(), 'selection': selection}))
            k += 1
        for i in range(npre):
            feed_and_check(-1, check_from == 0)
        for n, e in enumerate(hist):
            checked = n >= check_from
            if e[0] == 'm':
                feed_and_check(n, checked)
            else:
                out, err = s.cmd(e[1])
                if e[1] in ('connection zz', 'filter ['):
                    err = [] if err else ['(no error line for a bad command)']
                if checked and (err or (not e[1].startswith('list') and any(outparse.classify(x)[0] == 'message' for x in out))):
                    V.append(Violation('live.command_output', case, {'step': n, 'command': e[1], 'out': out, 'err': err}))
                # merging is on the reference state, so the implementation's observable state must equal it after
                # every command: which connection is marked as selected in the listing
                lst, _ = s.cmd('connection')
                marked = [cl['name'] for cl in map(outparse.connection_line, lst) if cl and cl['selected']]
                if e[1] in CMD_REF:
                    ref.step(CMD_REF[e[1]])
                elif e[1] == 'connection all':
                    selection = None
                elif e[1] in ('connection A', 'connection B', 'connection a'):      # names are matched without regard to case
                    selection = e[1].split()[-1].upper()
                if checked and marked != ([selection] if selection else []):
                    V.append(Violation('live.selection_state', case, {'step': n, 'command': e[1], 'expected_selected': selection,
                                                                      'listing_marks': marked}))
        # recording is independent of filter and selection
        f_out, _ = s.cmd('filter')
        s.cmd('connection all')
        o, _ = s.cmd('list *')
        listed = [x for x in o if outparse.classify(x)[0] == 'message']
        if listed != [c[0] for c in canon if c]:
            V.append(Violation('recorded.list', case, {'expected_n': len(canon), 'observed_n': len(listed)}))
        o, _ = s.cmd('connection')
        want_counts = {}
        for v in views:
            want_counts[v.conn] = want_counts.get(v.conn, 0) + 1
        got_counts = {}
        for l in o:
            cl = outparse.connection_line(l)
            if cl:
                got_counts[cl['name']] = cl['messages']
        if got_counts != want_counts:
            V.append(Violation('recorded.counts', case, {'expected': want_counts, 'observed': got_counts}))
        key = [f_out, selection, sorted((c, sorted(v)) for c, v in created.items())]
    except Exception:
        V.append(sut.exc_violation(case))
    return V, key


def make_expand(init, only=None):
    def expand(hist):
        out = []
        for ev in enabled_events(hist):
            if only is not None and ev not in only:
                continue
            h2 = list(hist) + [ev]
            V, key = run_hist(init, h2, check_from=len(hist))
            ncmd = sum(1 for e in h2 if e[0] == 'c')
            nmsg = len(h2) - ncmd
            out.append((ev, key, Eval(V, outcome=key, nontrivial=ncmd >= 1 and nmsg >= 1, transitions=len(h2) + 10)))
        return out
    return expand


def run(run, tier, seed):
    sut.bind()
    sut.ensure_protocols()
    d_un, d_me = (3, 5) if tier == 'quick' else (4, 8)
    for init in INITIAL:
        if tier == 'quick' and init in ('wl_pointer', '!'):
            continue      # quick: three of the five initial filters
        res = explore.bfs(make_expand(init), d_un, seed=seed, merge=False, bound={'initial_filter': init, 'depth': d_un, 'merged': False})
        run.add_part('unmerged:' + init, res)
        res = explore.bfs(make_expand(init), d_me, seed=seed, merge=True, bound={'initial_filter': init, 'depth': d_me, 'merged': True})
        run.add_part('merged:' + init, res)
    # creations and destructions of two object types under a `.destroyed` filter, every order, no merging (what one
    # destruction taught the matcher must not decide the next)
    lifecycle = [['m', '1', k] for k in ('create', 'destroy', 'cbnew', 'cbdel', 'commit')]
    d_life = 5 if tier == 'quick' else 7
    res = explore.bfs(make_expand('wl_surface.destroyed', only=lifecycle), d_life, seed=seed, merge=False,
                      bound={'initial_filter': 'wl_surface.destroyed', 'depth': d_life, 'merged': False, 'events': 'lifecycle only'})
    run.add_part('unmerged_lifecycle:wl_surface.destroyed', res)
    # one long session: recording does not forget (a bounded history would)
    from . import c11
    n_long = 70000 if tier == 'quick' else 300000
    res = explore.prod(lambda: iter([{'messages': n_long}]), c11.eval_long_history, workers=1, bound={'messages': n_long})
    for v in res.violations:
        v.kind = 'recorded.long_history'
    run.add_part('long_history', res)
    run.rule = ('BFS over histories of 9 message events (2 connections; matching / non-matching / creating / destroying) and '
                '8 commands (incl. a failing selection and a malformed filter) from 4 initial filters; unmerged = every history to the depth (every change point); merged on '
                '(printed filter, selection, object state); non-trivial = at least one command and one message')
    run.bound = {'unmerged_depth': d_un, 'merged_depth': d_me, 'initial_filters': INITIAL}
    run.assumptions = ['gap separators are judged by C16 and masked here', 'merged search: two histories with the same printed '
                       'filter, selection and live objects have the same futures (recorded list is compared in every state)']


def replay(case):
    sut.bind()
    sut.ensure_protocols()
    if 'messages' in case:
        from . import c11
        vs = c11.eval_long_history(case).viols
        for v in vs:
            v.kind = 'recorded.long_history'
        return vs
    return run_hist(case['init'], case['history'])[0]
