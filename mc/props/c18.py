"""C18 - no input makes the tool fail with an unhandled error.

PROD engine, three parts:
 logs     : every sequence of <=2 / <=3 tokens from a 22-token byte alphabet (valid
            lines, garbage, NUL, undecodable bytes, huge lines, ill-formed messages)
            as file, pipe (both stdin error policies) and run-mode input
 matchers : every string of length <=4 / <=5 over 20 characters: parse accepts or
            raises the documented error; an accepted matcher is simplified, printed
            and evaluated on diverse messages
 commands : command words (every prefix, wl forms, garbage) x arguments x session
            states
Oracle: totality - the call returns, only SystemExit leaves main in run mode, every
opened connection is reported closed, within a 20 s alarm."""
import io
import itertools
import os
import signal
import sys
import tempfile
import traceback

from .. import sut, explore, outparse
from ..explore import Eval
from ..report import Violation
from ..ref import matchsem as ms

L = lambda s: s.encode() + b'\n'     # noqa: E731
TOKENS = [
    L('[1000.000]  -> wl_display@1.get_registry(new id wl_registry@2)'),
    L('[1000.100] wl_registry@2.global(1, "wl_compositor", 4)'),
    b'\n', b'\r', b'\x00', b'\xff', b'\xc3', b'\x1b[31m',
    L('[1000.200] wl_registry@2.global(' + '9' * 5000 + ', "x", 1)'),
    L('[1000.300]  -> wl_foo@0.bar()'),
    L('[1000.400] wl_registry@2.global(1e999, "y", -1e999)'),
    L('[1000.500] wl_display@1.delete_id(77)'),
    L('[1000.600]  -> wl_registry@2.bind(1)'),
    L('[1000.700]  -> wl_display@1.sync(new id wl_callback@2)'),
    L('[1000.800] wl_registry@2.global(1, "abc, 4)'),
    b'x' * (1 << 20) + b'\n',
    L('[1000.900] <2>  -> wl_display@1.get_registry(new id wl_registry@2)'),
    b' ',
    b'[1001.000] wl_registry@2.global(',
    'é'.encode(),
    L('[1001.100]  -> wl_registry@2.bind(1, "wl_compositor", 4, new id [unknown]@1)'),
    L('[1001.200]  -> wl_registry@2.bind(1, "wl_compositor", 4, new id wl_seat@9)'),
    # a title with a quotation mark in it (libwayland does not escape): an odd number of quotes in the argument list
    L('[1001.300]  -> xdg_toplevel@7.set_title("27" monitor")'),
    # a well-formed time stamp too large for a float (the gap to its neighbour is infinite)
    L('[' + '9' * 330 + '.000]  -> wl_display@1.sync(new id wl_callback@5)'),
]
MODES = ['file', 'pipe_strict', 'pipe_surrogate', 'run']


class Timeout(BaseException):
    """Not an Exception: the decoder's own `except Exception` must not be able to swallow the harness's alarm."""


_fired = []


def _alarm(signum, frame):
    # fires again every 2 s for as long as the case goes on: a handler in the tool that swallows everything cannot
    # keep the case running, and the flag says afterwards that the budget was exceeded even if the case "came back"
    _fired.append(signum)
    signal.setitimer(signal.ITIMER_VIRTUAL, 2.0)
    signal.alarm(2)
    raise Timeout()


CPU_BUDGET_S = 12.0          # processor time of one log case (an input of at most ~1 MiB; ordinary cases take milliseconds)
MEM_BUDGET_MB = 1000         # growth of the worker's peak resident size during one case


def _maxrss_mb():
    import resource
    return resource.getrusage(resource.RUSAGE_SELF).ru_maxrss / 1024.0


def run_log(data, mode):
    """-> (out lines, err lines, escaped exception or None, extra)"""
    import main as wd_main
    from core import ConnectionManager, matcher
    from core.output import Output, stream
    from frontends.tui import Controller, Arguments
    sut.reset_globals()
    sut.ensure_protocols()
    out, err = stream.String(), stream.String()
    o = Output(False, True, out, err)
    cm = ConnectionManager()
    ctl = Controller(o, cm, matcher.always, matcher.never)
    inputs = iter(['list', 'q'])
    input_func = lambda prompt: next(inputs, 'q')      # noqa: E731
    escaped = None
    extra = {}
    old = signal.signal(signal.SIGALRM, _alarm)
    oldv = signal.signal(signal.SIGVTALRM, _alarm)
    del _fired[:]
    rss0 = _maxrss_mb()
    signal.alarm(60 if len(data) > 1000000 else 40)      # wall clock, generous: the machine may be busy
    # processor time of this process: does not depend on how busy the machine is.  A decoder that loops comes back
    # only because the worker's address-space limit ends the loop with a MemoryError that the tool itself swallows -
    # on a user's machine it would not come back; the budgets below report that.
    signal.setitimer(signal.ITIMER_VIRTUAL, 3 * CPU_BUDGET_S if len(data) > 1000000 else CPU_BUDGET_S)
    try:
        with tempfile.TemporaryDirectory(prefix='verif-c18-') as d:
            path = os.path.join(d, 'in.log')
            with open(path, 'wb') as f:
                f.write(data)
            try:
                if mode == 'file':
                    wd_main.file_input_main(path, o, cm, ctl, ctl, input_func)
                elif mode.startswith('pipe'):
                    raw = io.BytesIO(data)
                    saved = sys.stdin
                    sys.stdin = io.TextIOWrapper(raw, encoding='utf-8',
                                                 errors='strict' if mode == 'pipe_strict' else 'surrogateescape')
                    try:
                        wd_main.piped_input_main(o, cm)
                        extra['consumed'] = raw.tell() == len(data)
                    finally:
                        sys.stdin = saved
                else:
                    from backends.libwayland_debug_output import run_program
                    a = Arguments.default()
                    a.command_args = ['/bin/sh', '-c', 'cat "$1" >&2; exit 3', 'sh', path]
                    extra['status'] = run_program(o, a, cm, ctl, ctl, input_func)
            except Timeout:
                signal.setitimer(signal.ITIMER_VIRTUAL, 0)
                signal.alarm(0)
                escaped = 'timeout'
            except SystemExit as e:
                extra['exit'] = e.code
            except Exception as e:
                escaped = '%s: %s' % (type(e).__name__, str(e)[:200])
                extra['traceback'] = traceback.format_exc()[-1200:]
    finally:
        signal.setitimer(signal.ITIMER_VIRTUAL, 0)
        signal.alarm(0)
        signal.signal(signal.SIGALRM, old)
        signal.signal(signal.SIGVTALRM, oldv)
    if _fired and not escaped:
        escaped = 'timeout'
    grown = _maxrss_mb() - rss0
    if grown > MEM_BUDGET_MB and not escaped:
        escaped = 'memory: the case of %d input bytes raised the peak resident size by %d MB' % (len(data), grown)
    return sut._lines(out.buffer), sut._lines(err.buffer), escaped, extra


def eval_log(case):
    V = []
    data = b''.join(TOKENS[i] for i in case['tokens'])
    mode = case['mode']
    out, err, escaped, extra = run_log(data, mode)
    if escaped:
        kind = 'log.timeout' if escaped == 'timeout' else 'log.memory' if escaped.startswith('memory:') else 'log.escaped.' + escaped.split(':')[0]
        V.append(Violation(kind, case, {'escaped': escaped, 'traceback': extra.get('traceback'), 'input_preview': repr(data[:120])}))
    else:
        opened, closed = [], []
        for l in out:
            c, r = outparse.classify(l)
            if c == 'notice':
                (opened if r['what'] == 'New' else closed).append(r['conn'])
        if sorted(opened) != sorted(closed):
            V.append(Violation('log.not_closed', case, {'opened': opened, 'closed': closed}))
        if mode.startswith('pipe') and extra.get('consumed') is False:
            V.append(Violation('log.not_consumed', case, {}))
        if mode == 'run' and extra.get('status') != 3:
            V.append(Violation('log.run_status', case, {'status': extra.get('status')}))
    return Eval(V, outcome=[mode, escaped, len(out) > 0], nontrivial=len(case['tokens']) >= 2, transitions=len(case['tokens']) + 1)


def gen_logs(tier):
    n = 2 if tier == 'quick' else 3
    for k in range(0, n + 1):
        for toks in itertools.product(range(len(TOKENS)), repeat=k):
            if sum(1 for t in toks if t in (8, 15)) > 1:
                continue       # at most one huge token per input (time)
            for mode in MODES:
                if mode == 'run' and tier == 'quick' and k == 2 and (toks[0] + toks[1]) % 3:
                    continue   # quick: a third of the pairs through a real child; thorough: all
                yield {'tokens': list(toks), 'mode': mode}


# ---------------------------------------------------------------------------
# the real command line under both locales (one interpreter per run)

def gen_cli(tier):
    singles = [[i] for i in (0, 3, 4, 5, 6, 7, 9, 10, 12, 16, 18, 19)]
    pairs = [[0, 5], [5, 0], [0, 16], [6, 1], [0, 18]] + ([[a, b] for a in (4, 5, 6) for b in (0, 1, 16)] if tier != 'quick' else [])
    for toks in singles + pairs:
        for mode in ('file', 'pipe', 'run'):
            for loc in ('C', 'C.utf8', 'strict_stdout'):
                yield {'cli_tokens': toks, 'mode': mode, 'locale': loc}
    # the overlarge time stamp after an ordinary message, listed again at the prompt
    yield {'cli_tokens': [0, len(TOKENS) - 1], 'mode': 'file', 'locale': 'C.utf8', 'commands': b'list\nlist wl_display\nq\n'}
    # run mode: a program that closes its standard error and goes on for more than a second; one that is gone at once
    yield {'cli_tokens': [0, 1], 'mode': 'run_lingering', 'locale': 'C.utf8'}
    yield {'cli_tokens': [], 'mode': 'run_lingering', 'locale': 'C.utf8'}


def eval_cli(case):
    import re
    import subprocess
    V = []
    data = b''.join(TOKENS[i] for i in case['cli_tokens'])
    with tempfile.TemporaryDirectory(prefix='verif-c18-') as d:
        path = os.path.join(d, 'in.log')
        with open(path, 'wb') as f:
            f.write(data)
        env = {k: v for k, v in os.environ.items() if not k.startswith('LC_') and k not in ('LANG', 'PYTHONUTF8', 'PYTHONIOENCODING')}
        if case['locale'] == 'strict_stdout':
            # what a UTF-8 terminal session gives: output that cannot be encoded raises instead of being escaped
            env.update(LC_ALL='C.utf8', LANG='C.utf8', PYTHONIOENCODING='utf-8:strict', PYTHONDONTWRITEBYTECODE='1')
        else:
            env.update(LC_ALL=case['locale'], LANG=case['locale'], PYTHONDONTWRITEBYTECODE='1')
        main_py = os.path.join(sut.REPO, 'main.py')
        if case['mode'] == 'file':
            argv, stdin, want_rc = ['/venv/bin/python', main_py, '-l', path], b'q\n', 0
        elif case['mode'] == 'pipe':
            argv, stdin, want_rc = ['/venv/bin/python', main_py, '-p'], data, 0
        elif case['mode'] == 'run_lingering':
            argv, stdin, want_rc = ['/venv/bin/python', main_py, '-r', '/bin/sh', '-c', 'cat "$1" >&2; exec 2>&-; sleep 1.4; exit 3', 'sh', path], b'q\n', 3
        else:
            argv, stdin, want_rc = ['/venv/bin/python', main_py, '-r', '/bin/sh', '-c', 'cat "$1" >&2; exit 3', 'sh', path], b'q\n', 3
        if case.get('commands'):
            stdin = case['commands']
        try:
            p = subprocess.run(argv, input=stdin, capture_output=True, env=env, cwd=d, timeout=60)
            out = p.stdout.decode('utf-8', 'replace')
            err = p.stderr.decode('utf-8', 'replace')
            new = re.findall(r'^New .*? connection (\w+)(?=$|[^\w])', out, re.M)
            closed = re.findall(r'^Closed .*? connection (\w+)(?=$|[^\w])', out, re.M)
            if p.returncode != want_rc or 'Traceback' in err or sorted(new) != sorted(closed):
                V.append(Violation('cli.aborted', case, {'returncode': p.returncode, 'want': want_rc, 'stderr': err[-500:],
                                                         'new': new, 'closed': closed}))
        except subprocess.TimeoutExpired:
            V.append(Violation('cli.timeout', case, {}))
    return Eval(V, outcome=[case['mode'], case['locale'], len(V)], nontrivial=True, transitions=1)


# ---------------------------------------------------------------------------
# matchers

ALPHABET = ['a', '5', '*', '.', ',', '!', ':', '(', ')', '[', ']', '=', '@', '#', '"', ' ', '-', '~', 'é', '١', '\\']
EXTRA_MATCHERS = ['(surf*=*)', '.bind([name, ver*]=4)', '(*a=)', '(?=1)', '("C:\\Users")', '("\\x")', '("\\u12")', '("\\N{nope}")', '("a\\")', '(="\\n")', '\\', '"\\',
                  '3\u212a', '4\xdf', 'wl_seat ! 4\xfc', 'A: 12\u03b1',
                  'wl_surface.commit(x=0 ! 5)', '(1e999)', '(inf)', '(nan)', '(-0)', '(5.0)', '("")', '(")', '4a@', 'a@4', '@@', 'A:B:', 'nil', '(nil)',
                  '.new(x)', '[[a]]', '[a ! b ! c]', '((a))', 'a.b.c', '9' * 400, '(' + '9' * 400 + ')', '\x1b[31ma\x1b[0m', '\x00', 'a\nb',
                  '4' + 'a' * 30, '(=)', '(==)', '[!]', '(!)', '!!', ', ', ' ! ', '*:*.*(*=*)']

_msgs = {}


def diverse_messages():
    if 'm' not in _msgs:
        s = sut.Session()
        lines, _ = ms.build_universe(sut.REPO)
        for l in lines[:34]:
            s.feed_line(l)
        for l in ('[7000020.000] <1> wl_registry@2.global(1e999, "y", -1e999)',
                  '[7000021.000] <1>  -> zz_q@77.foo(1, "s", nil, fd 3, array[2], 1.50000000, new id [unknown]@78, zz_q@79, -3)',
                  '[7000022.000] <3> zz_r@5.bar()',
                  '[7000023.000] <1>  -> wl_surface@4.frobnicate(what?, 12x)'):
            s.feed_line(l)
        sut.LOG.take()
        allm = [m for c in s.cm.connections() for m in c.messages()]
        pick = [allm[i] for i in (0, 2, 4, 7, 12, 14, 15, 20, 26, 30)] + allm[-4:]
        _msgs['m'] = (s, pick)
    return _msgs['m']


def eval_matcher(case):
    from core import matcher
    V = []
    text = case['matcher']
    try:
        try:
            m = matcher.parse(text)
        except RuntimeError as e:
            if not str(e):
                V.append(Violation('matcher.empty_diagnostic', case, {}))
            return Eval(V, outcome='rejected')
        s, msgs = diverse_messages()
        [bool(m.matches(x)) for x in msgs]
        str(m)
        repr(m)
        m2 = m.simplify()
        str(m2)
        repr(m2)
        r2 = [bool(m2.matches(x)) for x in msgs]
        return Eval(V, outcome=['accepted', r2], nontrivial=any(r2) and not all(r2))
    except Exception:
        return Eval([sut.exc_violation(case, 'matcher.exception')], outcome='exception')


def gen_matchers(tier):
    n = 4 if tier == 'quick' else 5
    for k in range(0, n + 1):
        for t in itertools.product(ALPHABET, repeat=k):
            yield {'matcher': ''.join(t)}
    for e in EXTRA_MATCHERS:
        yield {'matcher': e}
    # documented expressions with one character deleted / duplicated
    docs = ['wl_surface.commit', 'B: .commit', 'wl_pointer(pressed)', '[wl_pointer ! 55, 62].motion', '([x=0, y=0])',
            'xdg_* ! xdg_popup, .get_popup', '55a.[motion, axis]', 'wl_surface(buffer="a b")', '10.destroyed']
    for d in docs:
        for i in range(len(d)):
            yield {'matcher': d[:i] + d[i + 1:]}
            yield {'matcher': d[:i] + d[i] + d[i:]}


# ---------------------------------------------------------------------------
# commands

CMD_NAMES = ['help', 'list', 'filter', 'breakpoint', 'matcher', 'connection', 'resume', 'quit']
ARGS = ['org.example.editor', 'editor', 'ORG.EXAMPLE.EDITOR', 'C', 'wl_display.sync', '', 'quit', 'resume', 'q', 'wlquit', 'r', 'help', 'wl_surface', '[', 'a:b:c', '~', '~ 3', '~ x', 'wl_surface ~ 2', '~ -1', '~ 0', '~~', 'x ~ 1 ~ 2', '*', '!', 'A', 'all', 'zz',
        'matcher', 'list', 'wl list', '(5)', '(1.5)', '(inf)', '("y")', 'B: 4a', '\x1b[31m', '\x00', 'é', '  ', '.new', '.destroyed(x)',
        '~ 99999999999999999999', '4294967296', '(-1e999)', ':', '@', '#', '=', '""', '"',
        # counts that look like digits to one test and not to another; a count beyond the interpreter's conversion limit
        '~ \u00b2', '~ 1\u00b3', '~ \u2460', '~ \u1369', '~ \u0663', '~ \uff13', 'wl_surface ~ \u00b2', '~ ' + '9' * 5000, '~ +3', '~ 3.0', '~ 0x3', '~ 1_0']
STATES = ['empty', 'loaded', 'selected', 'closed']


def cmd_words():
    ws = set()
    for n in CMD_NAMES:
        for i in range(1, len(n) + 1):
            ws.add(n[:i])
        ws.add('wl' + n)
        ws.add('wl' + n[0])
        ws.add(n.upper())
    ws.update(['w', 'wl', 'wayland', 'zz', 'wlzz', '', ' ', '\t', '~', '(', '\x1b[0m', 'l\x00', 'help help', 'wl wl wl list', 'wlwl'])
    return sorted(ws)


def make_state(name):
    s = sut.Session()
    if name != 'empty':
        lines, _ = ms.build_universe(sut.REPO)
        for l in lines:
            s.feed_line(l)
        s.feed_line('[7000020.000] <1> wl_registry@2.global(1e999, "y", -1e999)')
        s.feed_line('[7000021.000] <1>  -> zz_q@77.foo(1, "s", nil, fd 3, array[2], 1.50000000, new id [unknown]@78, zz_q@79, -3)')
        # two more connections that announce the same application id (two windows of one program)
        for c in ('5', '6'):
            s.feed_line('[7000022.000] <%s>  -> wl_display@1.get_registry(new id wl_registry@2)' % c)
            s.feed_line('[7000022.000] <%s>  -> xdg_toplevel@9.set_app_id("org.example.editor")' % c)
        s.feed_line('[' + '9' * 330 + '.000] <1>  -> wl_display@1.sync(new id wl_callback@5)')
    if name == 'selected':
        s.cmd('connection B')
    if name == 'closed':
        s.close()
    s.take()
    sut.LOG.take()
    return s


def _effective_word(line):
    """The command word of a prompt line once GDB-style prefixes (`w`, `wl`, `wlq`) are peeled off: only `resume` and
    `quit` (and their abbreviations) may legitimately print nothing."""
    import re
    for _ in range(8):
        parts = re.split(r'\s', sut.strip_sgr(line).strip(), maxsplit=1)
        first = parts[0].strip().lower()
        if first in ('w', 'wl'):
            line = parts[1] if len(parts) > 1 else ''
            continue
        return first[2:] if first.startswith('wl') else first
    return ''


def eval_command(case):
    V = []
    try:
        s = make_state(case['state'])
        word, arg = case['word'], case['arg']
        line = word + (' ' + arg if arg else '')
        out, err = s.cmd(line)
        silent_ok = any(n.startswith(_effective_word(line) or '\0') for n in ('resume', 'quit'))
        if not out and not err and not silent_ok:
            V.append(Violation('command.silent', case, {'line': line}))
        # typed again (the user repeats the mistake, or the command): again output or an error line
        out2, err2 = s.cmd(line)
        if not out2 and not err2 and not silent_ok:
            V.append(Violation('command.silent_when_repeated', case, {'line': line, 'first_time': [out[:2], err[:2]]}))
        # the session is still usable
        o2, e2 = s.cmd('connection')
        o3, e3 = s.cmd('list ~ 1')
    except Exception:
        V.append(sut.exc_violation(case, 'command.exception'))
        out = err = []
    return Eval(V, outcome=[bool(out), bool(err)], nontrivial=bool(case['arg']), transitions=3)


def gen_commands(tier):
    words = cmd_words()
    args = ARGS if tier != 'quick' else ARGS
    for st in STATES:
        for w in words:
            for a in args:
                yield {'state': st, 'word': w, 'arg': a}


def run(run, tier, seed):
    sut.bind()
    sut.ensure_protocols()
    res = explore.prod(lambda: gen_logs(tier), eval_log, seed=seed,
                       bound={'tokens_per_input': 2 if tier == 'quick' else 3, 'alphabet': len(TOKENS), 'modes': MODES})
    run.add_part('logs', res)
    res = explore.prod(lambda: gen_cli(tier), eval_cli, seed=seed, bound={'locales': ['C', 'C.utf8'], 'modes': ['file', 'pipe', 'run']})
    run.add_part('cli_locales', res)
    res = explore.prod(lambda: gen_matchers(tier), eval_matcher, seed=seed,
                       bound={'matcher_length': 4 if tier == 'quick' else 5, 'alphabet': ALPHABET})
    run.add_part('matchers', res)
    res = explore.prod(lambda: gen_commands(tier), eval_command, seed=seed,
                       bound={'command_words': len(cmd_words()), 'arguments': len(ARGS), 'states': STATES})
    run.add_part('commands', res)
    run.rule = ('logs: all token sequences to the bound x {file, pipe with strict / surrogateescape stdin, run with a real '
                'child}; matchers: all strings to the bound over %d characters + mutated documented expressions; commands: '
                'all command-word prefixes / wl forms / garbage x %d arguments x 4 session states; non-trivial = inputs '
                'with >= 2 tokens, matchers accepted with a partial selection, commands with an argument'
                % (len(ALPHABET), len(ARGS)))
    run.bound = {'log_tokens': 2 if tier == 'quick' else 3, 'matcher_length': 4 if tier == 'quick' else 5}
    run.assumptions = ['file mode decodes with the interpreter default (UTF-8 here); pipe mode is explored with both error '
                       'policies Python gives standard input (strict under a UTF-8 locale, surrogateescape under C/POSIX)']


def replay(case):
    sut.bind()
    sut.ensure_protocols()
    if 'cli_tokens' in case:
        return eval_cli(case).viols
    if 'tokens' in case:
        return eval_log(case).viols
    if 'matcher' in case:
        return eval_matcher(case).viols
    return eval_command(case).viols
