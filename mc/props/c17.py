"""C17 - colour is presentation only.

Lock-step BFS over a *pair* of sessions (colour on / colour off) driven by the same
events (log lines of every construct, every command form); after every step
strip(out_on) == out_off for both streams and for log records, and out_off holds no
escape sequence the input did not contain.  Paste-back: every coloured line and every
coloured fragment the tool printed during the search is fed back, coloured and
stripped, as command and as matcher to twin sessions, which must end up identical."""
import re
import traceback

from .. import sut, explore, outparse
from ..explore import Eval
from ..report import Violation
from ..ref import matchsem as ms

ESC = '\x1b'
LINES = {
    'chatter': 'hello [world] (x=1) "q"',
    'chatter_esc': 'app says \x1b[31mred\x1b[0m',
    'chatter_esc_open': 'app warns \x1b[33myellow and never resets',
    'illformed': '[7000010.000]  -> zz_q@77.foo(1, "s", nil, fd 3, array[2], 1.50000000, new id zz_r@78, zz_q@79, -3)',
    'dup_new': '[7000011.000] <1>  -> wl_compositor@3.create_surface(new id wl_surface@4)',
    'unknown_arg': '[7000012.000] <1>  -> wl_surface@4.frobnicate(what?, 12x)',
    # characters some line splitters take for line ends, inside one line of program output
    'chatter_odd_separators': 'report: page 1\x0cpage 2 \x1c \x85 next\u2028last',
    # lines of blanks only, and text with blanks at both ends: what is passed through of them is the same text either way
    'blank': '',
    'blanks': '   \t ',
    'padded': '   padded text \t',
}
COMMANDS = [
    'list', 'list wl_surface', 'list zz_nothing', 'list ~ 2', 'list [', 'list wl_pointer(pressed) ~ 1',
    'filter', 'filter wl_pointer', 'filter ! .motion', 'filter [', 'filter *',
    'breakpoint', 'breakpoint .commit', 'breakpoint !',
    # a matcher typed in the form the tool itself displays it in (entered again it must do the same in both sessions)
    'filter wl_registry.bind(*)', 'breakpoint [wl_surface.*(*), *.*(*=wl_surface)]',
    'matcher wl_surface.commit(x=0 ! 5)', 'matcher', 'matcher a:b:c', 'matcher [A ! B]: [wl_* ! wl_surface].[new, destroyed]',
    'connection', 'connection B', 'connection all', 'connection zz',
    'help', 'help matcher', 'help list', 'help zz', 'zz', '', 'wl list 4a', 'wlfilter', 'resume', 'quit', 'h', 'L ~ x',
]
SCRIPT_START = 24      # universe lines before this index are the fixed prelude


def events(tier):
    evs = [['next'], ['line', 'chatter'], ['line', 'illformed'], ['line', 'chatter_esc'], ['line', 'dup_new'], ['line', 'unknown_arg'],
           ['line', 'chatter_esc_open'], ['line', 'chatter_odd_separators'], ['line', 'blank'], ['line', 'blanks'], ['line', 'padded']]
    cmds = COMMANDS if tier != 'quick' else COMMANDS
    return evs + [['cmd', c] for c in cmds]


_u = {}


def universe_lines():
    if 'l' not in _u:
        _u['l'] = ms.build_universe(sut.REPO)[0]
    return _u['l']


PAIR_BREAKPOINT = 'wl_surface, wl_pointer, wl_registry.bind'


class Pair:
    """Two sessions in lock step; the colour switch is a process global, so it is set
    before every step of either session."""

    def __init__(self):
        from core.util import set_color_output
        self.set = set_color_output
        self.set(True)
        # with a breakpoint from the start, so that `Stopped at` notices are among what is compared
        self.on = sut.Session(color=True, stop=PAIR_BREAKPOINT)
        self.off = sut.Session(color=False, stop=PAIR_BREAKPOINT)
        self.pos = 0
        self.input_esc = 0
        self.seen_lines = []

    def _do(self, sess, colour, fn):
        self.set(colour)
        sut.LOG.take()
        try:
            out, err = fn(sess)
            exc = None
        except Exception as e:   # report below, identically for both
            out, err = sess.take()
            exc = '%s: %s' % (type(e).__name__, sut.strip_sgr(str(e))[:200])
            tb = traceback.format_exc()
            if sut.REPO not in tb:
                raise
        logs = [m for _, m in sut.LOG.take()]
        return out, err, logs, exc

    def step(self, ev):
        """-> list of (what, on, off) differences"""
        if ev[0] == 'next':
            lines = universe_lines()
            text = lines[self.pos] if self.pos < len(lines) else 'end of script'
            self.pos += 1
            fn = lambda s: s.feed_line(text)        # noqa: E731
        elif ev[0] == 'line':
            text = LINES[ev[1]]
            fn = lambda s: s.feed_line(text)        # noqa: E731
        elif ev[0] == 'array':
            # a message whose array argument comes with its elements (what GDB mode delivers; a log only says array[N])
            text = ''
            n, kind = ev[1], ev[2]

            def fn(s):
                from core import wl
                from backends.libwayland_debug_output import parse
                conn_id, _ = parse.message(universe_lines()[0])
                elems = [wl.Arg.Int((10 + k) if kind == 'two_digit' else (k % 5)) for k in range(n)]
                if kind == 'states':
                    msg = wl.Message(7000.03, wl.UnresolvedObject(78, 'xdg_toplevel'), False, 'configure',
                                     (wl.Arg.Int(640), wl.Arg.Int(480), wl.Arg.Array(elems)))
                else:
                    msg = wl.Message(7000.03, wl.UnresolvedObject(77, 'zz_q'), True, 'keys',
                                     (wl.Arg.Int(5), wl.Arg.Array(elems), wl.Arg.String('tail')))
                s.parser.handle_message(conn_id, msg)
                return s.take()
        else:
            text = ev[1]
            fn = lambda s: s.cmd(text)              # noqa: E731
        self.input_esc += text.count(ESC)
        a = self._do(self.on, True, fn)
        b = self._do(self.off, False, fn)
        self.seen_lines += a[0] + a[1]
        diffs = []
        for what, x, y in zip(('out', 'err', 'log', 'exception'), a, b):
            sx = [sut.strip_sgr(l) for l in x] if isinstance(x, list) else x
            # sequences that came in with the input are not the tool's own: strip them on both sides
            sy = [sut.strip_sgr(l) for l in y] if isinstance(y, list) and ESC in text else y
            if what == 'log' and len(sx) != len(sy):
                # the two sessions share one process: a diagnostic the tool logs only once per process (de-duplicated
                # warnings) reaches only the session that ran first; that is an artefact of the pairing, not of colour
                continue
            if sx != sy:
                diffs.append((what, x, y))
        nesc = sum(l.count(ESC) for l in b[0] + b[1] + b[2])
        if nesc > text.count(ESC):     # sequences present in the input may pass through; the tool adds none of its own
            diffs.append(('escape_when_off', None, [l for l in b[0] + b[1] + b[2] if ESC in l][:3]))
        return diffs

    def key(self):
        self.set(False)
        f, _ = self.off.cmd('filter')
        b, _ = self.off.cmd('breakpoint')
        c, _ = self.off.cmd('connection')
        return [f, b, c, self.pos]


def run_hist(hist, check_from=0, collect=None):
    case = {'history': [list(e) for e in hist]}
    V = []
    p = Pair()
    try:
        # prelude through the same step function
        for i in range(SCRIPT_START):
            diffs = p.step(['next'])
            if diffs and check_from == 0:
                V.append(Violation('colour.differs', case, {'step': 'prelude %d' % i, 'diffs': diffs[:2]}))
        for n, ev in enumerate(hist):
            diffs = p.step(ev)
            if n >= check_from:
                for what, x, y in diffs[:2]:
                    kind = 'colour.escape_when_off' if what == 'escape_when_off' else 'colour.differs'
                    V.append(Violation(kind, case, {'step': n, 'event': ev, 'stream': what, 'on': x, 'off': y}))
        key = p.key()
        if collect is not None:
            collect.update(p.seen_lines)
    except Exception:
        V.append(sut.exc_violation(case))
        key = None
    finally:
        p.set(False)
    return V, key


def make_expand(tier, merged):
    evs = events(tier)

    def expand(hist):
        out = []
        for ev in evs:
            h2 = list(hist) + [ev]
            V, key = run_hist(h2, check_from=len(hist))
            out.append((ev, key if merged else None, Eval(V, outcome=key, nontrivial=any(e[0] == 'cmd' for e in h2),
                                                          transitions=len(h2) + SCRIPT_START)))
        return out
    return expand


# ---------------------------------------------------------------------------
# long sessions: what is printed grows with the session (an accumulated filter of many names, a long matcher typed in
# one go, a long listing); any shortening, wrapping or counting of what is shown must be the same with and without colour

NAMES = ['wl_registry', 'wl_seat', 'wl_compositor', 'wl_surface', 'wl_pointer', 'wl_keyboard', 'xdg_toplevel', 'wl_callback',
         'wl_shm_pool', 'wl_buffer', 'xdg_surface', 'wl_data_device']


def gen_long_sessions(tier):
    rounds = 6 if tier == 'quick' else 14
    for per in (1, 3):
        for verb in ('filter', 'breakpoint'):
            h = []
            for k in range(rounds):
                names = [NAMES[(k * per + j) % len(NAMES)] + ('' if k < len(NAMES) else '.m%d' % k) for j in range(per)]
                h += [['cmd', '%s %s' % (verb, ', '.join(names))], ['cmd', 'list'], ['cmd', 'list ~ 1'], ['cmd', verb], ['next'],
                      ['cmd', 'list wl_surface ~ 2']]
            yield {'history': h}
    for n in (4, 7, 12, 40) if tier == 'quick' else (4, 7, 12, 40, 200):
        expr = ', '.join('%s.[%s](%s)' % (NAMES[i % len(NAMES)], ', '.join('m%d' % j for j in range(3)), 'a=%d, "s %d"' % (i, i)) for i in range(n))
        yield {'history': [['next'], ['cmd', 'matcher ' + expr], ['cmd', 'list ' + expr], ['cmd', 'list ! ' + expr + ' ~ 3'],
                           ['cmd', 'filter ' + expr], ['cmd', 'filter'], ['next'], ['cmd', 'breakpoint ' + expr], ['cmd', 'breakpoint'], ['next'],
                           ['cmd', 'list'], ['cmd', 'list [' + expr]]}


def gen_arrays(tier):
    ns = list(range(0, 40)) + [64, 100, 200, 1000] if tier == 'quick' else list(range(0, 130)) + [200, 1000, 5000]
    for n in ns:
        for kind in ('two_digit', 'states'):
            yield {'history': [['array', n, kind]]}
            yield {'history': [['cmd', 'filter zz_q, xdg_toplevel'], ['array', n, kind], ['cmd', 'list'], ['array', n + 1, kind], ['cmd', 'list ~ 1']]}


def eval_long_session(case):
    V, key = run_hist(case['history'])
    return Eval(V, outcome=key, nontrivial=True, transitions=len(case['history']) + SCRIPT_START)


# ---------------------------------------------------------------------------
# paste-back

def fragments(lines):
    """Coloured lines and the coloured fragments inside them."""
    frags = set()
    for l in lines:
        if ESC not in l:
            continue
        frags.add(l)
        for m in re.finditer(r'(?:\x1b\[[0-9;]*m)+[^\x1b]+(?:\x1b\[[0-9;]*m)+', l):
            frags.add(m.group(0))
    return sorted(frags)


def eval_paste(case):
    """case: {'text': coloured text, 'as': 'command'|'list'|'filter'|'matcher'|'connection', 'colour': bool}"""
    from core.util import set_color_output
    V = []
    text = case['text']
    prefix = {'command': '', 'list': 'list ', 'filter': 'filter ', 'matcher': 'matcher ', 'connection': 'connection ',
              'breakpoint': 'breakpoint ', 'option_f': None, 'option_b': None}[case['as']]
    res = []
    try:
        for variant in (text, sut.strip_sgr(text)):
            if prefix is None:
                # pasted as the value of -f / -b on the command line (the tool's own parse_args)
                try:
                    s = sut.Session(color=case['colour'], **{'filt' if case['as'] == 'option_f' else 'stop': variant})
                except RuntimeError:
                    # parse_args says the value is no matcher (its own RuntimeError, or the exit that
                    # matchers_from_command_line turns into one)
                    res.append(([], [], 'rejected on the command line', None))
                    continue
                for l in universe_lines()[:SCRIPT_START]:
                    s.feed_line(l)
                out, err = s.take()
                frame = [s.cmd(c)[0] for c in ('filter', 'breakpoint', 'connection')]
                res.append(([sut.strip_sgr(x) for x in out], [sut.strip_sgr(x) for x in err], None, frame))
                continue
            s = sut.Session(color=case['colour'])
            for l in universe_lines()[:SCRIPT_START]:
                s.feed_line(l)
            set_color_output(case['colour'])
            sut.LOG.take()
            try:
                if case.get('via') == 'prompt':
                    # typed (pasted) at the interactive prompt of file / run mode, then `quit`
                    from frontends.tui import TerminalUI
                    typed = iter([prefix + variant])
                    TerminalUI(s.ctl, s.ctl, lambda prompt: next(typed, 'quit')).run_until_stopped()
                    out, err = s.take()
                else:
                    out, err = s.cmd(prefix + variant)
                exc = None
            except Exception as e:
                if sut.REPO not in traceback.format_exc():
                    raise
                out, err = s.take()
                exc = '%s: %s' % (type(e).__name__, sut.strip_sgr(str(e))[:200])
            frame = [s.cmd(c)[0] for c in ('filter', 'breakpoint', 'connection')]
            res.append(([sut.strip_sgr(x) for x in out], [sut.strip_sgr(x) for x in err], exc, frame))
        if res[0] != res[1]:
            which = [n for n, a, b in zip(('out', 'err', 'exception', 'state'), res[0], res[1]) if a != b]
            V.append(Violation('paste.' + which[0], case, {'differs': which, 'coloured': [r for r in res[0]][:3],
                                                           'stripped': [r for r in res[1]][:3]}))
    except Exception:
        V.append(sut.exc_violation(case))
    finally:
        set_color_output(False)
    return Eval(V, outcome=[case['as'], bool(res and res[0][2])], nontrivial=True, transitions=2)


def gen_paste(frags):
    for f in frags:
        for how in ('command', 'list', 'filter', 'matcher', 'connection', 'breakpoint', 'option_f', 'option_b'):
            for colour in (False, True):
                yield {'text': f, 'as': how, 'colour': colour}
            if how in ('command', 'list', 'connection'):
                yield {'text': f, 'as': how, 'colour': True, 'via': 'prompt'}


def gdb_flavour_child(tier):
    """Runs in a child interpreter that can import the GDB model: inside GDB the help texts
    use `(gdb) wl<cmd>` and colour defaults differ; lock-step over every command once and in pairs."""
    import json
    sut.bind(fake_gdb=True)
    sut.ensure_protocols()
    from core.util import check_gdb
    assert check_gdb()
    evs = [['cmd', c] for c in COMMANDS]
    n = 0
    viols = []
    hists = [[e] for e in evs] + [[a, b] for a in evs[:12] for b in evs if a[1].startswith(('help', 'filter', 'break'))]
    for h in hists:
        V, _ = run_hist(h)
        n += 1
        for v in V:
            viols.append([v.kind, v.case, v.detail])
    print(json.dumps({'evaluations': n, 'violations': viols[:10]}))


def gdb_flavour_part(run, tier):
    import json
    import subprocess
    import sys
    p = subprocess.run([sys.executable, '-m', 'mc.props.c17', '--gdb-flavour', tier], capture_output=True, text=True,
                       cwd=sut.VERIF, timeout=600)
    res = explore.Result()
    if p.returncode != 0:
        raise explore.HarnessError('gdb flavour child failed: ' + p.stderr[-600:])
    doc = json.loads(p.stdout.strip().split('\n')[-1])
    res.evaluations = res.states = res.transitions = res.validated = doc['evaluations']
    res.nontrivial = doc['evaluations']
    for k, c, d in doc['violations']:
        c = dict(c, gdb_flavour=True)
        res.violations.append(Violation(k, c, d))
    res.samples = [{'gdb_flavour_histories': doc['evaluations']}]
    run.add_part('gdb_flavour', res)


def run_on_tty(argv, text, cwd, env):
    """Run argv with standard output and standard error on a pseudo-terminal (standard input stays a pipe).
    -> (everything written to the terminal, exit status)"""
    import os
    import pty
    import select
    import subprocess
    import time
    master, slave = pty.openpty()
    p = subprocess.Popen(argv, stdin=subprocess.PIPE, stdout=slave, stderr=slave, cwd=cwd, env=env, close_fds=True)
    os.close(slave)
    try:
        p.stdin.write(text.encode())
        p.stdin.close()
    except BrokenPipeError:
        pass
    chunks = []
    t_end = time.time() + 60
    while time.time() < t_end:
        r, _, _ = select.select([master], [], [], 0.2)
        if r:
            try:
                data = os.read(master, 65536)
            except OSError:      # EIO: every descriptor of the terminal's other side is closed
                break
            if not data:
                break
            chunks.append(data)
        elif p.poll() is not None:
            break
    os.close(master)
    try:
        rc = p.wait(timeout=10)
    except subprocess.TimeoutExpired:
        p.kill()
        rc = None
    return b''.join(chunks).decode(errors='replace'), rc


def eval_flags(case):
    """The real command line (stdout is a pipe, so colour is off unless forced; or a terminal, with colour disabled by flag)."""
    import os
    import subprocess
    import tempfile
    V = []
    flags = case['flags']
    if case.get('tty') or 'matcher' in case:
        # colour disabled (by flag on a terminal, by flag or by default on a pipe): nothing the tool prints - the complaint
        # about a malformed matcher given on the command line included - may carry an escape sequence
        with tempfile.TemporaryDirectory(prefix='verif-c17-') as d:
            path = os.path.join(d, 'in.log')
            with open(path, 'w') as f:
                f.write('\n'.join(universe_lines()[:12]) + '\nplain chatter\n')
            env = dict(os.environ, PYTHONDONTWRITEBYTECODE='1', TERM='xterm-256color')
            argv = ['/venv/bin/python', os.path.join(sut.REPO, 'main.py')] + flags + case.get('matcher', []) + ['-l', path]
            if case.get('run_mode'):
                argv = ['/venv/bin/python', os.path.join(sut.REPO, 'main.py')] + flags + ['/bin/sh', '-c', 'cat "$1" >&2', 'sh', path]
            text = 'list wl_surface\nfilter wl_surface.[commit\nq\n'
            if case.get('tty'):
                shown, rc = run_on_tty(argv, text, d, env)
            else:
                p = subprocess.run(argv, input=text, capture_output=True, text=True, env=env, cwd=d, timeout=60)
                shown, rc = p.stdout + p.stderr, p.returncode
            if ESC in shown:
                i = shown.index(ESC)
                V.append(Violation('colour.escape_when_disabled', case, {'around': shown[max(0, i - 80):i + 40], 'exit_status': rc}))
            if rc is None or not shown.strip():
                V.append(Violation('colour.cli_silent', case, {'exit_status': rc, 'shown': shown[:200]}))
        return Eval(V, outcome=[flags, case.get('matcher'), bool(case.get('tty')), ESC in shown], nontrivial=True, transitions=1)
    want_colour = '--color' in flags and '-C' not in flags and '--no-color' not in flags
    with tempfile.TemporaryDirectory(prefix='verif-c17-') as d:
        path = os.path.join(d, 'in.log')
        with open(path, 'w') as f:
            f.write('\n'.join(universe_lines()[:12]) + '\nplain chatter\n')
        env = dict(os.environ, PYTHONDONTWRITEBYTECODE='1')
        p = subprocess.run(['/venv/bin/python', os.path.join(sut.REPO, 'main.py')] + flags + ['-l', path],
                           input='list wl_surface\nfilter ! .commit\nhelp matcher\nq\n', capture_output=True, text=True, env=env, cwd=d, timeout=60)
        has = ESC in p.stdout or ESC in p.stderr
        if has != want_colour:
            V.append(Violation('colour.flags', case, {'escape_sequences_present': has, 'expected': want_colour, 'stdout_head': p.stdout[:200]}))
    return Eval(V, outcome=[flags, has], nontrivial=len(flags) >= 2, transitions=1)


def gen_flags(tier):
    for flags in ([], ['-C'], ['--color'], ['-C', '--color'], ['--color', '-C'], ['--no-color', '--color'], ['--color', '--no-color'],
                  ['--color', '--color'], ['-C', '-C'], ['--supress', '--color', '-C']):
        yield {'flags': flags}
    matchers = [[], ['-f', 'wl_surface'], ['-f', 'wl_surface.[commit'], ['-b', '(('], ['-f', 'a.b.c.d'], ['-b', 'x@y@z'], ['-f', '"unterminated'],
                ['-f', 'a:b:c'], ['-b', '!!x'], ['-f', '(a=b=c)']]
    # colour disabled in one word with the mode option
    for flags in (['-Cr'], ['-Cpr']):
        yield {'flags': flags, 'tty': True, 'run_mode': True}
    for m in matchers:
        for flags, tty in ((['-C'], True), (['--no-color'], True), (['--color', '-C'], True), (['-C'], False), ([], False)):
            yield {'flags': flags, 'matcher': m, 'tty': tty}


def run(run, tier, seed):
    sut.bind()
    sut.ensure_protocols()
    gdb_flavour_part(run, tier)
    res = explore.prod(lambda: gen_flags(tier), eval_flags, seed=seed)
    run.add_part('command_line_flags', res)
    d_un, d_me = (1, 3) if tier == 'quick' else (3, 5)
    res = explore.bfs(make_expand(tier, False), d_un, seed=seed, merge=False, bound={'depth': d_un, 'merged': False})
    run.add_part('lockstep_unmerged', res)
    res = explore.bfs(make_expand(tier, True), d_me, seed=seed, merge=True, bound={'depth': d_me, 'merged': True})
    run.add_part('lockstep_merged', res)
    res = explore.prod(lambda: gen_long_sessions(tier), eval_long_session, seed=seed,
                       bound={'accumulating_commands': 6 if tier == 'quick' else 14, 'alternatives_in_one_matcher': 40 if tier == 'quick' else 200})
    run.add_part('long_sessions', res)
    res = explore.prod(lambda: gen_arrays(tier), eval_long_session, seed=seed, bound={'array_lengths': '0..39, 64, 100, 200, 1000' if tier == 'quick' else '0..129, 200, 1000, 5000'})
    run.add_part('arrays_with_elements', res)
    # collect what the tool printed with colour on: every event once after the prelude, and in pairs
    seen = set()
    for ev in events(tier):
        run_hist([ev], collect=seen)
    for ev in (['cmd', 'filter wl_pointer'], ['cmd', 'breakpoint .commit'], ['cmd', 'connection B']):
        for ev2 in events(tier):
            run_hist([ev, ev2], check_from=2, collect=seen)
    frags = fragments(seen)
    res = explore.prod(lambda: gen_paste(frags), eval_paste, seed=seed, bound={'fragments': len(frags)})
    run.add_part('paste_back', res)
    run.rule = ('lock-step BFS over a (colour on, colour off) session pair: %d events (log lines of every construct, every '
                'command form) after a %d-line prelude; paste-back of every coloured line/fragment printed during the search '
                'as command / list / filter / breakpoint / matcher / connection argument; non-trivial = history with a command'
                % (len(events(tier)), SCRIPT_START))
    run.bound = {'unmerged_depth': d_un, 'merged_depth': d_me, 'fragments': len(frags)}
    run.assumptions = ['the colour switch is a process global: it is set before every step of either session',
                       'merged search: states with the same printed filter / breakpoint / connection listing / script position '
                       'are identified']


def replay(case):
    sut.bind()
    sut.ensure_protocols()
    if 'text' in case:
        return eval_paste(case).viols
    if 'flags' in case:
        return eval_flags(case).viols
    if case.get('gdb_flavour'):
        import subprocess
        import sys
        import json
        p = subprocess.run([sys.executable, '-m', 'mc.props.c17', '--gdb-flavour-one', json.dumps(case['history'])],
                           capture_output=True, text=True, cwd=sut.VERIF, timeout=600)
        doc = json.loads(p.stdout.strip().split('\n')[-1])
        return [Violation(k, c, d) for k, c, d in doc['violations']]
    return run_hist(case['history'])[0]


if __name__ == '__main__':
    import sys
    import json
    if sys.argv[1] == '--gdb-flavour':
        gdb_flavour_child(sys.argv[2])
    elif sys.argv[1] == '--gdb-flavour-one':
        sut.bind(fake_gdb=True)
        sut.ensure_protocols()
        V, _ = run_hist(json.loads(sys.argv[2]))
        print(json.dumps({'violations': [[v.kind, v.case, v.detail] for v in V]}))
