"""C11 - `list` returns exactly the recorded messages that match, with honest counts,
and changes nothing.

PROD engine: recorded histories (0 / 1 / 12 / universe messages, two connections) x
current filter x selected connection x matcher (hand denotations; absent = current
filter; `*`; `!`; malformed) x cap, each query repeated and interleaved with another
query; oracle = reference list(), count identity, frame condition."""
import traceback

from .. import sut, explore, outparse
from ..explore import Eval
from ..report import Violation
from ..ref import matchsem as ms
from . import c05

FILTERS = [('*', lambda m: True), ('wl_surface', None), ('! .commit', None)]
MATCHERS = [(0, 1, 0, 0), (0, 0, 1, 0), (0, 2, 0, 0), (0, 4, 0, 0), (0, 0, 2, 0), (0, 0, 3, 0), (2, 0, 4, 0), (1, 1, 1, 0),
            (0, 0, 4, 2), (0, 0, 4, 7), (0, 5, 0, 0), (0, 17, 0, 0), (0, 0, 4, 6), (0, 0, 4, 9), (0, 3, 0, 0), (0, 10, 1, 0),
            (0, 0, 7, 0), (0, 0, 4, 13), (0, 16, 0, 0), (5, 0, 1, 0)]
HISTORIES = {'empty': 0, 'one': 1, 'twelve': None, 'universe': len(ms.UNIVERSE), 'universe_live_commands': len(ms.UNIVERSE),
             'interleaved_equal_times': None}


def history_msgs(name):
    if name == 'twelve':
        u = ms.UNIVERSE
        return u[:8] + u[45:49]      # 8 lines of connection 1 (incl. delete_id) + 4 of connection 2
    if name == 'interleaved_equal_times':
        u = ms.UNIVERSE
        a, b = u[:8], u[45:53]
        return [x for pair in zip(a, b) for x in pair]      # the two connections alternate line by line, one timestamp
    if name == 'universe_live_commands':
        u = list(ms.UNIVERSE)
        # messages on objects the log never showed being created, on both connections
        u.insert(20, {'sent': True, 'iface': 'zz_q', 'id': 77, 'name': 'foo', 'args': [['int', 1]], 'queue': None, 'conn': '1'})
        u.insert(52, {'sent': False, 'iface': 'zz_q', 'id': 77, 'name': 'bar', 'args': [], 'queue': None, 'conn': '2'})
        u.append({'sent': True, 'iface': 'zz_q', 'id': 78, 'name': 'foo', 'args': [['int', 2]], 'queue': None, 'conn': '1'})
        return u
    return ms.UNIVERSE[:HISTORIES[name]]


def filter_den(i):
    if i == 0:
        return lambda m: True
    if i == 1:
        return ms.bare(ms.CONN_ATOMS[0], ('wl_surface', ms.o_type('wl_surface')))
    commit = ms.pattern(ms.CONN_ATOMS[0], ms.OBJ_ATOMS[0], ('commit', lambda n: n == 'commit', False), ms.ARG_ATOMS[0])
    return lambda m: ms.not3(commit(m))


def frame(s):
    """What the user can observe of filter / breakpoint / selection / recorded list."""
    f, _ = s.cmd('filter')
    b, _ = s.cmd('breakpoint')
    c, _ = s.cmd('connection')
    l, _ = s.cmd('list *')
    return [f, b, c, l]


def evaluate(case):
    V = []
    try:
        msgs = history_msgs(case['history'])
        lines, views = ms.build_universe(sut.REPO, msgs, equal_times=case['history'] == 'interleaved_equal_times')
        fi = case['filter']
        s = sut.Session(filt=None if fi == 0 else FILTERS[fi][0], stop='wl_keyboard')
        shown_all = []
        s2 = sut.Session()     # unfiltered twin: the canonical line of every message
        for n, l in enumerate(lines):
            if case['history'] == 'universe_live_commands':
                # commands typed while messages arrive (GDB mode, or a slow program): recording must not depend on them
                if n == 10:
                    s.cmd('connection A')
                elif n == 46:
                    s.cmd('filter ! .commit' if fi != 2 else 'filter wl_surface')
                elif n == 50:
                    s.cmd('connection B')
                elif n == 56:
                    s.cmd('connection all')
            s.feed_line(l)
            o, _ = s2.feed_line(l)
            shown_all.append([x for x in o if outparse.classify(x)[0] == 'message'][0])
        sel = case['select']
        if sel != 'all':
            o, e = s.cmd('connection ' + sel)
            if msgs and not any('Switched to connection' in x for x in o):
                if any(v.conn == sel for v in views):
                    V.append(Violation('list.select_failed', case, {'out': o, 'err': e}))
                    return Eval(V)
                sel = 'all'
        # the query
        if case['matcher'] == 'absent' and case['history'] == 'universe_live_commands':
            return Eval([], outcome='current filter changed mid-way', nontrivial=False)
        if case['matcher'] == 'absent':
            mtext, den = '', filter_den(fi)
        elif case['matcher'] == 'bad':
            mtext, den = 'a:b:c', (lambda m: False)
        elif case['matcher'] in ('*', '!'):
            mtext, den = case['matcher'], (lambda m, c=case['matcher']: c == '*')
        else:
            mtext, den, _ = c05.build_one(case['matcher'])
        pool = [(v, sh) for v, sh in zip(views, shown_all) if sel == 'all' or v.conn == sel]
        dens = [den(v) for v, _ in pool]
        # messages the documentation does not decide for this matcher may be listed or not; the others are judged
        maybe = {sh for (v, sh), d in zip(pool, dens) if d is None}
        matches = [sh for (v, sh), d in zip(pool, dens) if d]
        k = len(matches)
        cap = case['cap']
        capn = {'absent': None, 'k-1': k - 1, 'k': k, 'k+1': k + 1}.get(cap, cap)
        if isinstance(capn, int) and capn < 0:
            return Eval([], outcome='negative cap', nontrivial=False)
        q = 'list ' + mtext + ('' if capn is None else ' ~ %d' % capn)
        other = 'list wl_registry ~ 1'
        before = frame(s)
        o1, e1 = s.cmd(q)
        o2, e2 = s.cmd(q)
        s.cmd(other)
        o3, e3 = s.cmd(q)
        after = frame(s)
        detail = {'query': q}
        if o1 != o2 or o1 != o3 or e1 != e2 or e1 != e3:
            V.append(Violation('list.not_repeatable', case, dict(detail, first=o1[:4], second=o2[:4], third=o3[:4])))
        if before != after:
            which = [n for n, a, b in zip(('filter', 'breakpoint', 'connection', 'recorded'), before, after) if a != b]
            V.append(Violation('list.frame', case, dict(detail, changed=which)))
        if case['matcher'] == 'bad':
            if not e1:      # reported as an error: at least one line on the error stream, whatever its wording
                V.append(Violation('list.malformed_not_reported', case, dict(detail, err=e1)))
        elif e1:
            V.append(Violation('list.error', case, dict(detail, err=e1)))
        cls = [outparse.classify(x) for x in o1]
        listed = [x for x, (c, _) in zip(o1, cls) if c == 'message']
        counts = [r for c, r in cls if c == 'count']
        none_of = [r for c, r in cls if c == 'none_of']
        no_msgs = [r for c, r in cls if c == 'no_messages']
        if case['matcher'] == 'bad':
            # a malformed matcher: an error line, and nothing is selected (whether an empty listing follows is presentation)
            if listed:
                V.append(Violation('list.content', case, dict(detail, observed=listed[:3], expected=[])))
            return Eval(V, outcome=[case['history'], 'bad'], nontrivial=False, transitions=12)
        if capn is None or capn == 0:
            want = matches if capn is None else None     # `~ 0` is outside the property (N >= 1)
        else:
            want = matches[-capn:]
        if maybe:
            # with undecided messages in the pool only the certain part is compared (and only without a cap: which
            # messages are "the last N" depends on the undecided ones)
            if capn is None:
                core = [x for x in listed if x not in maybe]
                if core != matches:
                    V.append(Violation('list.content', case, dict(detail, expected_apart_from_undecided=matches[-5:], observed=core[-5:],
                                                                  expected_n=len(matches), observed_n=len(core))))
        elif want is not None and listed != want:
            V.append(Violation('list.content', case, dict(detail, expected=want[-5:], observed=listed[-5:],
                                                          expected_n=len(want), observed_n=len(listed))))
        recorded = len(pool)
        # the counts: a line with the three numbers, or - when nothing is listed - a line that gives the number searched
        # (`None of the N ...`) or says that nothing has been recorded; how an empty result is worded is presentation
        if len(counts) == 1:
            c = counts[0]
            if c['matched'] != len(listed) or c['matched'] + c['didnt'] + c['notchecked'] != recorded or \
                    (capn in (None, 0) and c['notchecked'] != 0):
                V.append(Violation('list.counts', case, dict(detail, counts=c, shown=len(listed), recorded=recorded)))
        elif listed or len(counts) > 1:
            V.append(Violation('list.count_line', case, dict(detail, out=o1[-2:])))
        elif len(none_of) == 1:
            if none_of[0]['n'] != recorded:
                V.append(Violation('list.counts', case, dict(detail, none_of=none_of, recorded=recorded, out=o1[-2:])))
        elif not (no_msgs and recorded == 0 and not msgs):
            V.append(Violation('list.count_line', case, dict(detail, out=o1)))
    except Exception:
        V.append(sut.exc_violation(case))
    return Eval(V, outcome=[case['history'], len(V)], nontrivial=case['cap'] not in ('absent', 0) and case['history'] != 'empty',
                transitions=12)


def eval_long_history(case):
    """One long session: every message stays recorded and listable (a bounded history would lose the oldest)."""
    V = []
    n = case['messages']
    try:
        s = sut.Session(filt='wl_callback.done')
        s.feed_line('[1000.000] <1>  -> wl_display@1.get_registry(new id wl_registry@2)')
        s.feed_line('[1000.000] <2>  -> wl_display@1.get_registry(new id wl_registry@2)')
        import io
        text = ''.join('[%d.%03d] <%d> wl_registry@2.global(%d, "i%d", 1)\n' % (1000 + k // 1000, k % 1000, 1 + k % 2, k, k) for k in range(n))
        s.parser.parse_all(io.StringIO(text))
        s.take()
        o, e = s.cmd('list .get_registry')
        listed = [x for x in o if outparse.classify(x)[0] == 'message']
        counts = [r for c, r in map(outparse.classify, o) if c == 'count']
        if len(listed) != 2 or not counts or counts[0]['matched'] + counts[0]['didnt'] + counts[0]['notchecked'] != n + 2:
            V.append(Violation('list.long_history', case, {'listed': len(listed), 'counts': counts, 'recorded': n + 2}))
        o, e = s.cmd('list wl_registry.global ~ 3')
        listed = [x for x in o if outparse.classify(x)[0] == 'message']
        if len(listed) != 3 or ('i%d' % (n - 1)) not in listed[-1] or ('(name=%d,' % (n - 1)) not in listed[-1]:
            V.append(Violation('list.long_history', case, {'last_three': listed}))
    except Exception:
        V.append(sut.exc_violation(case))
    return Eval(V, nontrivial=True, transitions=n)


# ---------------------------------------------------------------------------
# "the recorded messages": what `list` searches with a connection selected and with none selected must be the same
# record, whatever the lines were - also lines that are messages the tool cannot take in (a delete_id for an id created
# before the log began, a message newer than the protocol description, one argument too many)

VIEW_LINES = {
    'greg': '  -> wl_display@1.get_registry(new id wl_registry@2)',
    'sync': '  -> wl_display@1.sync(new id wl_callback@3)',
    'done': ' wl_callback@3.done(7)',
    'del3': ' wl_display@1.delete_id(3)',
    'del_unknown': ' wl_display@1.delete_id(88)',
    'newer_message': '  -> wl_display@1.frobnicate(1)',
    'extra_argument': '  -> wl_display@1.sync(new id wl_callback@9, 5)',
    'orphan': '  -> zz_q@77.foo(1)',
    'empty_title': '  -> xdg_toplevel@9.set_title("")',
    'empty_app_id': '  -> xdg_toplevel@9.set_app_id("")',
    'chatter': None,
}


def eval_views(case):
    V = []
    try:
        s = sut.Session()
        for n, (c, k) in enumerate(case['lines']):
            body = VIEW_LINES[k]
            s.feed_line('starting up' if body is None else '[%d.%03d] <%s>%s' % (1000, n, c, body))
        names = [cl['name'] for cl in map(outparse.connection_line, s.cmd('connection')[0]) if cl]
        counts_listed = {cl['name']: cl['messages'] for cl in map(outparse.connection_line, s.cmd('connection')[0]) if cl}

        def listing(what):
            o, _ = s.cmd('list ' + what)
            cls = [outparse.classify(x) for x in o]
            msgs = [x for x, (c, _) in zip(o, cls) if c == 'message']
            cnt = [r for c, r in cls if c == 'count']
            none_of = [r for c, r in cls if c == 'none_of']
            total = (cnt[0]['matched'] + cnt[0]['didnt'] + cnt[0]['notchecked']) if cnt else (none_of[0]['n'] if none_of else 0)
            return msgs, total
        all_msgs, all_total = listing('*')
        per = {}
        for nm in names:
            s.cmd('connection ' + nm)
            per[nm] = listing('*')
        s.cmd('connection all')
        again_msgs, again_total = listing('*')
        if (again_msgs, again_total) != (all_msgs, all_total):
            V.append(Violation('list.changes_after_selecting', case, {'before_selecting': all_msgs, 'after_connection_all': again_msgs}))
        union = sorted(x for nm in names for x in per[nm][0])
        d = {'all_connections_view': all_msgs, 'per_connection_views': {nm: per[nm][0] for nm in names}}
        if union != sorted(all_msgs):
            V.append(Violation('list.views_disagree', case, d))
        elif sum(per[nm][1] for nm in names) != all_total:
            V.append(Violation('list.view_counts_disagree', case, {'all': all_total, 'per_connection': {nm: per[nm][1] for nm in names}}))
        elif any(counts_listed[nm] != per[nm][1] for nm in names):
            V.append(Violation('list.connection_count_disagrees', case, {'connection_listing': counts_listed,
                                                                         'list_totals': {nm: per[nm][1] for nm in names}}))
    except Exception:
        V.append(sut.exc_violation(case))
    kinds = {k for _, k in case['lines']}
    return Eval(V, outcome=[sorted(kinds), len(V)], nontrivial=bool(kinds & {'del_unknown', 'newer_message', 'extra_argument', 'orphan'}),
                transitions=len(case['lines']) + 4)


TITLES = ['a b', 'a  b', 'a\tb', ' a b', 'a b ']


def eval_quoted_blanks(case):
    """Blanks inside a quoted string of a matcher typed as a command are part of the string."""
    V = []
    try:
        s = sut.Session()
        s.feed_line('[1000.000]  -> wl_display@1.get_registry(new id wl_registry@2)')
        shown = {}
        for n, t in enumerate(case['titles']):
            o, _ = s.feed_line('[1000.%03d]  -> xdg_toplevel@9.set_title("%s")' % (n + 1, TITLES[t]))
            shown.setdefault(t, []).extend(x for x in o if outparse.classify(x)[0] == 'message')
        want = shown.get(case['ask'], [])
        for q in ('list ("%s")', 'list   .set_title("%s")  ', 'list\t(title="%s")'):
            o, e = s.cmd(q % TITLES[case['ask']])
            got = [x for x in o if outparse.classify(x)[0] == 'message']
            if got != want or e:
                V.append(Violation('list.quoted_blanks', case, {'query': q % TITLES[case['ask']], 'expected': want, 'observed': got, 'err': e}))
                break
    except Exception:
        V.append(sut.exc_violation(case))
    return Eval(V, outcome=[case['ask'], len(V)], nontrivial=case['ask'] in case['titles'], transitions=len(case['titles']) + 3)


# ---------------------------------------------------------------------------
# a query's answer does not depend on the query asked before it (`list` changes nothing): every ordered pair of queries
# from a set that holds look-alikes - matchers that differ only in quotes, blanks, case, cap or connection prefix

PAIR_LINES = [
    '[1000.000] <1>  -> wl_display@1.get_registry(new id wl_registry@2)',
    '[1000.001] <1> wl_registry@2.global(1, "wl_shm", 1)',
    '[1000.002] <1> wl_registry@2.global(2, "1", 1)',
    '[1000.003] <1>  -> wl_registry@2.bind(1, "wl_shm", 1, new id wl_shm@4)',
    '[1000.004] <1>  -> wl_shm@4.create_pool(new id wl_shm_pool@5, fd 9, 4096)',
    '[1000.005] <1>  -> wl_registry@2.bind(2, "wl_compositor", 1, new id wl_compositor@6)',
    '[1000.006] <1>  -> wl_compositor@6.create_surface(new id wl_surface@7)',
    '[1000.007] <1>  -> wl_surface@7.attach(nil, 0, 0)',
    '[1000.008] <1>  -> xdg_toplevel@9.set_title("nil")',
    '[1000.009] <1>  -> xdg_toplevel@9.set_title("wl_*")',
    '[1000.010] <2>  -> wl_display@1.get_registry(new id wl_registry@2)',
    '[1000.011] <2> wl_registry@2.global(1, "wl_shm", 1)',
    '[1000.012] <2>  -> wl_display@1.sync(new id wl_callback@4)',
    '[1000.013] <2> wl_callback@4.done(1)',
    '[1000.014] <2> wl_display@1.delete_id(4)',
    '[1000.015] <2>  -> wl_display@1.sync(new id wl_callback@4)',
]
PAIR_EXTRA = '[1000.020] <1> wl_registry@2.global(3, "nil", 1)'
PAIR_QUERIES = ['(wl_shm)', '("wl_shm")', '(1)', '("1")', '(nil)', '("nil")', '(wl_*)', '("wl_*")', '', '*', '!', 'wl_registry', 'wl_registry ~ 1',
                'wl_registry ~ 2', '.global', '.global(1)', '.global("1")', '(name=1)', '(interface="1")', 'A: *', 'B: *', 'A: 4a', 'B: 4a', '4a',
                '4b', '4', '(4)', '("4")', '[', 'wl_shm', '"wl_shm"', 'WL_SHM', '( wl_shm )', '(" wl_shm ")', '.new', '.destroyed', 'wl_callback.new',
                'wl_callback.destroyed', '(1.0)', '(1) ~ 1', '("1") ~ 1']
_alone = {}


def _pair_session(between):
    s = sut.Session()
    for l in PAIR_LINES:
        s.feed_line(l)
    if between == 'select_then_all':
        s.cmd('connection B')
        s.cmd('connection all')
    s.take()
    return s


def eval_query_pair(case):
    V = []
    try:
        q1, q2, between = case['first'], case['second'], case['between']
        key = (q2, between)
        if key not in _alone:
            s = _pair_session(between)
            if between == 'message':
                s.feed_line(PAIR_EXTRA)
            _alone[key] = s.cmd('list ' + q2)
        s = _pair_session(between)
        s.cmd('list ' + q1)
        if between == 'message':
            s.feed_line(PAIR_EXTRA)
        elif between == 'same_again':
            s.cmd('list ' + q1)
        got = s.cmd('list ' + q2)
        if got != _alone[key]:
            V.append(Violation('list.depends_on_previous_query', case, {'asked_alone': [x[-6:] for x in _alone[key]], 'asked_after_the_other': [x[-6:] for x in got]}))
    except Exception:
        V.append(sut.exc_violation(case))
    return Eval(V, outcome=[case['second'], len(V)], nontrivial=case['first'] != case['second'], transitions=len(PAIR_LINES) + 3)


def gen_query_pairs(tier):
    for between in ('nothing', 'message', 'same_again', 'select_then_all'):
        for q1 in PAIR_QUERIES:
            for q2 in PAIR_QUERIES:
                yield {'first': q1, 'second': q2, 'between': between}


def gen_quoted_blanks(tier):
    import itertools
    for L in (2, 3):
        for titles in itertools.product(range(len(TITLES)), repeat=L):
            for ask in range(len(TITLES)):
                yield {'titles': list(titles), 'ask': ask}


def gen_views(tier):
    import itertools
    n = 3 if tier == 'quick' else 4
    alphabet = [(c, k) for c in ('1', '2') for k in VIEW_LINES if not (c == '2' and k in ('done', 'del3', 'chatter'))]
    for L in range(1, n + 1):
        for t in itertools.product(alphabet, repeat=L):
            yield {'lines': [list(x) for x in t]}


def gen_cases(tier):
    matchers = ['absent', '*', '!', 'bad'] + [list(m) for m in (MATCHERS[:9] if tier == 'quick' else MATCHERS)]
    caps = ['absent', 0, 1, 2, 'k-1', 'k', 'k+1', 99] + ([3, 7] if tier != 'quick' else [])
    hists = ['empty', 'one', 'twelve', 'universe', 'universe_live_commands', 'interleaved_equal_times']
    for h in hists:
        for fi in range(len(FILTERS)):
            for sel in ('all', 'A', 'B'):
                for m in matchers:
                    for cap in caps:
                        yield {'history': h, 'filter': fi, 'select': sel, 'matcher': m, 'cap': cap}


def run(run, tier, seed):
    sut.bind()
    sut.ensure_protocols()
    res = explore.prod(lambda: gen_cases(tier), evaluate, seed=seed,
                       bound={'histories': list(HISTORIES), 'filters': [f[0] for f in FILTERS]})
    run.add_part('queries', res)
    res = explore.prod(lambda: iter([{'messages': 70000 if tier == 'quick' else 300000}]), eval_long_history, workers=1,
                       bound={'messages': 70000 if tier == 'quick' else 300000})
    run.add_part('long_history', res)
    res = explore.prod(lambda: gen_views(tier), eval_views, seed=seed, bound={'lines': 3 if tier == 'quick' else 4, 'line_kinds': list(VIEW_LINES)})
    run.add_part('views_of_the_record', res)
    res = explore.prod(lambda: gen_quoted_blanks(tier), eval_quoted_blanks, seed=seed, bound={'titles': TITLES})
    run.add_part('blanks_inside_quoted_strings', res)
    res = explore.prod(lambda: gen_query_pairs(tier), eval_query_pair, seed=seed, bound={'queries': PAIR_QUERIES, 'between': 4})
    run.add_part('query_pairs', res)
    run.rule = ('histories {0,1,12,universe messages} x current filter x selected connection x matcher x cap; each query '
                'issued three times around a different query; non-trivial = a cap >= 1 on a non-empty history')
    run.bound = res.bound
    run.assumptions = ['`~ 0` and negative caps are outside the property (N >= 1): only the count identity is asserted for them',
                       'the no-argument forms of filter / breakpoint / connection and `list *` are used as observers of the frame']


def replay(case):
    sut.bind()
    sut.ensure_protocols()
    if 'messages' in case:
        return eval_long_history(case).viols
    if 'lines' in case:
        return eval_views(case).viols
    if 'titles' in case:
        return eval_quoted_blanks(case).viols
    if 'first' in case:
        return eval_query_pair(case).viols
    return evaluate(case).viols
