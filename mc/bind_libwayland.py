"""Binding of the printer model (ref/wlprint.py, dialect `mid`) to the libwayland
installed in this image: the real library is driven through ctypes with
WAYLAND_DEBUG=1 (wl_display_connect_to_fd on a socketpair, custom wl_interfaces,
wl_proxy_marshal_array) and every line it prints for a set of requests must be the
line the model renders for the same structured message (timestamps masked).

Run as a child process (it writes the real lines to its standard error):
    python -m mc.bind_libwayland --emit      prints the structured messages as JSON on stdout
                                             and lets libwayland print to stderr
    python -m mc.bind_libwayland             runs the child, compares, exit 0 / 1
"""
import ctypes as C
import itertools
import json
import os
import re
import socket
import subprocess
import sys

LIB = '/lib/x86_64-linux-gnu/libwayland-client.so.0'


class wl_interface(C.Structure):
    pass


class wl_message(C.Structure):
    _fields_ = [('name', C.c_char_p), ('signature', C.c_char_p), ('types', C.POINTER(C.POINTER(wl_interface)))]


wl_interface._fields_ = [('name', C.c_char_p), ('version', C.c_int), ('method_count', C.c_int),
                         ('methods', C.POINTER(wl_message)), ('event_count', C.c_int), ('events', C.POINTER(wl_message))]


class wl_array(C.Structure):
    _fields_ = [('size', C.c_size_t), ('alloc', C.c_size_t), ('data', C.c_void_p)]


class wl_argument(C.Union):
    _fields_ = [('i', C.c_int32), ('u', C.c_uint32), ('f', C.c_int32), ('s', C.c_char_p), ('o', C.c_void_p),
                ('n', C.c_uint32), ('a', C.POINTER(wl_array)), ('h', C.c_int32)]


REPS = {'i': ['int', -7], 'u': ['int', 4000000000], 'f': ['fixed', 384], 's': ['str', 'a, b'], 'o': ['obj', 'zz_o', None],
        'n': ['new', 'zz_n', None], 'a': ['array', 8], 'h': ['fd', None]}
FIXED = [0, 256, 128, -256, 1, -1, 109025, 2 ** 31 - 1, -2 ** 31, 255, -255, 384, -384, -512, 25600000, -25600000, 257, -257]
INTS = [0, 1, -1, 2 ** 31 - 1, -2 ** 31]
UINTS = [0, 2 ** 31, 2 ** 32 - 1]
STRS = ['a', '', 'a, b', 'two words', 'x(y)[z]{w}', None]


def cases():
    """(signature, [values]) ; object / new id / fd values are filled in by the emitter."""
    codes = 'iufsonah'
    for L in range(0, 3):
        for sig in itertools.product(codes, repeat=L):
            yield ''.join(sig), [list(REPS[c]) for c in sig]
    for v in FIXED:
        yield 'f', [['fixed', v]]
    for v in INTS:
        yield 'iu', [['int', v], ['int', 7]]
    for v in UINTS:
        yield 'u', [['int', v]]
    for v in STRS:
        yield '?su', [['str', v], ['int', 1]]
    yield '?o', [['nil']]
    yield '2n', [['new', None, None]]
    yield 'a', [['array', 0]]
    yield 'a', [['array', 12]]


def emit():
    lib = C.CDLL(LIB)
    lib.wl_display_connect_to_fd.restype = C.c_void_p
    lib.wl_display_connect_to_fd.argtypes = [C.c_int]
    lib.wl_proxy_marshal_array_constructor.restype = C.c_void_p
    lib.wl_proxy_marshal_array_constructor.argtypes = [C.c_void_p, C.c_uint32, C.POINTER(wl_argument), C.POINTER(wl_interface)]
    lib.wl_proxy_marshal_array.restype = None
    lib.wl_proxy_marshal_array.argtypes = [C.c_void_p, C.c_uint32, C.POINTER(wl_argument)]
    lib.wl_proxy_get_id.restype = C.c_uint32
    lib.wl_proxy_get_id.argtypes = [C.c_void_p]
    lib.wl_display_flush.argtypes = [C.c_void_p]
    keep = []
    a, b = socket.socketpair()
    keep += [a, b]
    os.environ['WAYLAND_DEBUG'] = '1'
    display = lib.wl_display_connect_to_fd(os.dup(a.fileno()))
    assert display
    all_cases = list(cases())
    zz_o = wl_interface(b'zz_o', 1, 0, None, 0, None)
    zz_n = wl_interface(b'zz_n', 1, 0, None, 0, None)
    # one interface whose request k has the k-th signature
    methods = (wl_message * len(all_cases))()
    for k, (sig, vals) in enumerate(all_cases):
        plain = [c for c in sig if c in 'iufsonah']
        types = (C.POINTER(wl_interface) * max(len(plain), 1))()
        for i, (c, v) in enumerate(zip(plain, vals)):
            if c == 'o' and v[0] == 'obj':
                types[i] = C.pointer(zz_o)
            if c == 'n' and v[1] is not None:
                types[i] = C.pointer(zz_n)
        keep.append(types)
        methods[k] = wl_message(b'msg%d' % k, sig.encode(), C.cast(types, C.POINTER(C.POINTER(wl_interface))))
    zz_t = wl_interface(b'zz_t', 1, len(all_cases), methods, 0, None)
    keep += [methods, zz_t, zz_o, zz_n]

    def make_proxy(iface):
        arg = (wl_argument * 1)()
        p = lib.wl_proxy_marshal_array_constructor(display, 0, arg, C.pointer(iface))   # wl_display.sync slot
        assert p
        return p
    target = make_proxy(zz_t)
    an_object = make_proxy(zz_o)
    out = []
    for k, (sig, vals) in enumerate(all_cases):
        args = (wl_argument * max(len(vals), 1))()
        structured = []
        for i, v in enumerate(vals):
            kind = v[0]
            if kind == 'int':
                if v[1] < 0:
                    args[i].i = v[1]
                else:
                    args[i].u = v[1]
                structured.append(['int', v[1]])
            elif kind == 'fixed':
                args[i].f = v[1]
                structured.append(['fixed', v[1]])
            elif kind == 'str':
                args[i].s = None if v[1] is None else v[1].encode()
                structured.append(['str', v[1]] if v[1] is not None else ['nil'])
            elif kind == 'nil':
                args[i].o = None
                structured.append(['nil'])
            elif kind == 'obj':
                args[i].o = an_object
                structured.append(['obj', 'zz_o', lib.wl_proxy_get_id(an_object)])
            elif kind == 'new':
                fresh = make_proxy(zz_n)
                args[i].o = fresh
                structured.append(['new', v[1], lib.wl_proxy_get_id(fresh)])
            elif kind == 'array':
                buf = (C.c_char * max(v[1], 1))()
                arr = wl_array(v[1], max(v[1], 1), C.cast(buf, C.c_void_p))
                keep += [buf, arr]
                args[i].a = C.pointer(arr)
                structured.append(['array', v[1]])
            elif kind == 'fd':
                args[i].h = 0
                structured.append(['fd', 'ANY'])
        sys.stderr.write('MARK %d\n' % k)
        sys.stderr.flush()
        lib.wl_proxy_marshal_array(target, k, args)
        out.append({'k': k, 'iface': 'zz_t', 'id': lib.wl_proxy_get_id(target), 'name': 'msg%d' % k, 'args': structured})
    sys.stderr.flush()
    print(json.dumps(out))


def compare():
    from .ref import wlprint
    if not os.path.exists(LIB):
        print('libwayland binding: library not installed, skipped')
        return 0
    p = subprocess.run([sys.executable, '-m', 'mc.bind_libwayland', '--emit'], capture_output=True, text=True,
                       cwd=os.path.dirname(os.path.dirname(os.path.abspath(__file__))), timeout=120)
    if p.returncode != 0:
        print('libwayland binding: the emitter could not drive the library here, skipped:\n' + p.stderr[-300:])
        return 0
    msgs = json.loads(p.stdout)
    real = {}
    cur = None
    for l in p.stderr.split('\n'):
        m = re.match(r'^MARK (\d+)$', l)
        if m:
            cur = int(m.group(1))
        elif cur is not None and l.startswith('[') and 'wl_display@1.sync(' not in l:   # proxies made for the test itself
            real.setdefault(cur, []).append(l)
    bad = 0
    for m in msgs:
        lines = real.get(m['k'], [])
        structured = {'t_us': 0, 'sent': True, 'iface': m['iface'], 'id': m['id'], 'name': m['name'], 'queue': None, 'conn': None,
                      'args': [a if a != ['fd', 'ANY'] else ['fd', 0] for a in m['args']]}
        want = wlprint.render(structured, 'mid')
        want = re.sub(r'^\[[^\]]*\]', '[T]', want)
        got = [re.sub(r'^\[[^\]]*\]', '[T]', re.sub(r'fd \d+', 'fd 0', l)) for l in lines]
        if got != [want]:
            bad += 1
            if bad <= 5:
                print('libwayland binding: MISMATCH\n  model: %r\n  real : %r' % (want, got))
    print('printer model vs the installed libwayland driven through ctypes: %d messages, %d mismatches' % (len(msgs), bad))
    return 1 if bad else 0


if __name__ == '__main__':
    if '--emit' in sys.argv:
        emit()
    else:
        sys.exit(compare())
