"""Evidence files, violation artefacts and known-findings handling."""
import hashlib
import json
import os
import sys
import time

VERIF = os.path.dirname(os.path.dirname(os.path.abspath(__file__)))
# the overrides are for runs against scratch trees (tools/seeded.py): evidence in /verif/evidence is about /repo only
EVIDENCE_DIR = os.environ.get('VERIF_EVIDENCE_DIR') or os.path.join(VERIF, 'evidence')
REPLAY_DIR = os.environ.get('VERIF_REPLAY_DIR') or os.path.join(VERIF, 'replays')
KNOWN_FILE = os.path.join(VERIF, 'known_findings.json')
MAX_REPORTED = 5


def _canon(o):
    return json.dumps(o, sort_keys=True, ensure_ascii=True, default=repr)


def load_known():
    try:
        with open(KNOWN_FILE) as f:
            return json.load(f)
    except FileNotFoundError:
        return {'known': [], 'fixed': []}


def _match_known(entry, pid, kind, case, detail):
    """A known finding names a property, a violation kind and regular expressions
    that must be found in the canonical JSON of the witness case / of the detail."""
    import re
    if entry.get('property') != pid or entry.get('kind') != kind:
        return False
    if 'case~' in entry and not re.search(entry['case~'], _canon(case)):
        return False
    if 'detail~' in entry and not re.search(entry['detail~'], _canon(detail)):
        return False
    return True


class Violation:
    part = None
    context = None

    def __init__(self, kind, case, detail):
        self.kind = kind          # short class name of the failed obligation
        self.case = case          # JSON-serialisable input / history / schedule
        self.detail = detail      # dict: expected / observed / explanation

    def key(self):
        return hashlib.sha1(_canon([self.kind, self.case]).encode()).hexdigest()[:16]

    def size(self):
        return len(_canon(self.case))

    def to_json(self):
        return {'kind': self.kind, 'case': self.case, 'detail': self.detail}


class Run:
    """Accumulates what one check run covered and what it found."""

    def __init__(self, pid, tier, seed):
        self.pid = pid
        self.tier = tier
        self.seed = seed
        self.t0 = time.time()
        self.cov = {
            'evaluations': 0, 'states': 0, 'transitions': 0,
            'traces_validated_against_impl': 0, 'distinct_nontrivial': 0,
        }
        self.parts = {}
        self.samples = []
        self.rule = ''
        self.bound = {}
        self.caps_hit = []
        self.exhaustive = True
        self.assumptions = []
        self.violations = {}
        self.skipped = []
        self.outcomes = 0
        self._rerun = {}
        self._rerun_keys = {}

    # ----- coverage ------------------------------------------------------
    def add_part(self, name, res):
        """Merge the result of one enumeration (explore.Result) under a name."""
        self.parts[name] = {
            'evaluations': res.evaluations, 'states': res.states,
            'transitions': res.transitions, 'nontrivial': res.nontrivial,
            'distinct_outcomes': res.outcomes, 'bound': res.bound,
            'exhaustive': res.exhaustive,
        }
        if res.extra:
            self.parts[name].update(res.extra)
        c = self.cov
        c['evaluations'] += res.evaluations
        c['states'] += res.states
        c['transitions'] += res.transitions
        c['traces_validated_against_impl'] += res.validated
        c['distinct_nontrivial'] += res.nontrivial
        self.outcomes += res.outcomes
        if not res.exhaustive:
            self.exhaustive = False
            self.caps_hit.append(name)
        for s in res.samples:
            self.samples.append({'part': name, 'case': s})
        if getattr(res, 'rerun', None) is not None:
            self._rerun[name] = res.rerun
        for v in res.violations:
            v.part = name
            self.violations.setdefault(v.key(), v)

    def parts_in_child(self, fn):
        """Run fn(collector) - a function that computes parts in this process rather than through explore.prod/bfs - in
        a forked child, so that whatever state the code under test keeps at module level never reaches the parent (from
        which every later worker, confirmation and in-context re-run is forked)."""
        from . import explore

        def body(_rank):
            got = []

            class _Collector:
                assumptions = self.assumptions
                violations = self.violations
                tier = self.tier
                skipped = []

                def add_part(self, n, res):
                    res.rerun = None
                    got.append((n, res))
            fn(_Collector())
            return got, _Collector.skipped
        got, skipped = explore._fork_map(body, 1)[0]
        self.skipped += skipped
        for n, res in got:
            res.rerun = lambda n=n: [x for m, x in explore._fork_map(body, 1)[0][0] if m == n][0]
            self.add_part(n, res)

    def violation(self, kind, case, detail):
        v = Violation(kind, case, detail)
        self.violations.setdefault(v.key(), v)

    # ----- finish ----------------------------------------------------------
    def finish(self, replay_fn=None):
        """Confirm, classify and print violations; write evidence; return exit code."""
        known = load_known()
        d = os.path.join(REPLAY_DIR, self.pid)
        if os.path.isdir(d):          # artefacts of earlier runs are stale
            for f in os.listdir(d):
                os.unlink(os.path.join(d, f))
        reported = 0
        n_new = 0
        n_known = 0
        harness_error = False
        unconfirmed = []
        printed_known = set()
        vs = sorted(self.violations.values(), key=lambda v: (v.size(), v.key()))
        # group by kind so that one defect does not crowd out another
        per_kind = {}
        for v in vs:
            entry = None
            for e in known.get('known', []):
                if _match_known(e, self.pid, v.kind, v.case, v.detail):
                    entry = e
                    break
            if entry is not None:
                n_known += 1
                tag = entry.get('id') or entry.get('what')
                if tag not in printed_known:
                    printed_known.add(tag)
                    print('KNOWN-FINDING: property=%s %s' % (self.pid, entry.get('what', tag)))
                continue
            per_kind.setdefault(v.kind, []).append(v)
        order = []
        kinds = sorted(per_kind)
        i = 0
        while any(per_kind.values()):
            k = kinds[i % len(kinds)]
            if per_kind[k]:
                order.append(per_kind[k].pop(0))
            i += 1
        for v in order:
            n_new += 1
            if reported >= MAX_REPORTED:
                continue
            if replay_fn is not None and v.kind != 'timeout':
                # in a forked child: confirming a witness must not touch this process's copy of the code under test
                from . import explore
                try:
                    def confirm(r, c=v.case, k=v.kind):
                        try:
                            return [(x.kind, x.case, x.detail) for x in explore.timed(replay_fn, c, explore.CASE_TIMEOUT * 2)]
                        except explore.CaseTimeout:
                            # the witness makes the tool hang: that is the failure repeating, not a harness problem
                            return [(k, c, {'replay': 'did not come back within %d s' % (explore.CASE_TIMEOUT * 2)})]
                    again = explore._fork_map(confirm, 1)[0]
                    again = [Violation(*t) for t in again]
                except Exception as ex:  # replay itself crashed
                    again = [Violation(v.kind, v.case, {'exception': repr(ex)[:500]})]
                if not any(a.kind == v.kind for a in again):
                    # Not reproducible from a fresh start.  The tool may carry state from one case to the next
                    # (module-level caches, shared defaults): re-run the exploration that found it, from the same
                    # starting state, and accept the violation only if the identical witness fails again.
                    part = getattr(v, 'part', None)
                    if part in self._rerun and part not in self._rerun_keys:
                        try:
                            self._rerun_keys[part] = {x.key() for x in self._rerun[part]().violations}
                        except Exception:
                            self._rerun_keys[part] = set()
                    if v.key() in self._rerun_keys.get(part, ()):
                        v.detail = dict(v.detail, reproduces='only within the exploration that found it: the tool carries state '
                                        'between cases (fails again, identically, when part %r is re-run)' % part)
                        v.context = {'part': part, 'tier': self.tier}
                    else:
                        unconfirmed.append(v)
                        continue
            path = self.write_replay(v)
            print('VIOLATION property=%s replay=%s' % (self.pid, path))
            print('  kind=%s detail=%s' % (v.kind, _canon(v.detail)[:600]))
            reported += 1
        # A witness that fails neither from a fresh start nor when the exploration that found it is repeated is not
        # reported as a violation.  Beside confirmed ones it is noted (code that reads stray memory fails differently
        # each time); on its own it means the harness does not own some source of nondeterminism: a harness error.
        for v in unconfirmed:
            n_new -= 1
            print('%s property=%s violation kind=%s did not reproduce: %s'
                  % ('UNCONFIRMED' if reported else 'HARNESS-ERROR', self.pid, v.kind, _canon(v.case)[:300]))
        harness_error = bool(unconfirmed) and not reported
        self.write_evidence(n_new, n_known)
        sys.stdout.flush()
        if harness_error:
            return 2
        return 1 if n_new else 0

    def write_replay(self, v):
        d = os.path.join(REPLAY_DIR, self.pid)
        os.makedirs(d, exist_ok=True)
        path = os.path.join(d, v.key() + '.json')
        doc = {'property': self.pid, 'tier': self.tier}
        doc.update(v.to_json())
        if getattr(v, 'context', None):
            doc['context'] = v.context
        with open(path, 'w') as f:
            json.dump(doc, f, indent=1, sort_keys=True, default=repr)
        test = os.path.join(d, 'test_' + v.key() + '.py')
        with open(test, 'w') as f:
            f.write(
                '# Replays one recorded violation of %s without the explorer.\n'
                'import subprocess, sys\n'
                'def test_replay():\n'
                '    r = subprocess.run([%r, %r, "--replay", %r])\n'
                '    assert r.returncode == 0, "violation reproduces"\n'
                % (self.pid, os.path.join(VERIF, 'check'), self.pid, path))
        return path

    def write_evidence(self, n_new, n_known):
        os.makedirs(EVIDENCE_DIR, exist_ok=True)
        cov = dict(self.cov)
        for k in ('states', 'transitions', 'evaluations'):
            cov[k] = int(cov[k])
        samples = self.samples
        if len(samples) > 8:
            # VERIF_SEED only rotates which explored cases are written out
            step = max(1, len(samples) // 8)
            off = self.seed % step
            samples = samples[off::step][:8]
        cov['samples'] = samples
        cov['rule'] = self.rule
        cov['exhaustive'] = bool(self.exhaustive)
        cov['bound_completed'] = self.bound
        cov['caps_hit'] = self.caps_hit
        cov['distinct_outcomes'] = self.outcomes
        cov['parts'] = self.parts
        if self.skipped:
            cov['skipped'] = self.skipped
        doc = {
            'property_id': self.pid,
            'tier': self.tier,
            'seed': int(self.seed),
            'level': 'model_checking',
            'coverage': cov,
            'assumptions': self.assumptions,
            'wall_s': round(time.time() - self.t0, 3),
            'violations': n_new,
            'known_findings_seen': n_known,
        }
        validate_evidence(doc)
        tmp = os.path.join(EVIDENCE_DIR, self.pid + '.json.tmp')
        with open(tmp, 'w') as f:
            json.dump(doc, f, indent=1, sort_keys=True, default=repr)
        os.replace(tmp, os.path.join(EVIDENCE_DIR, self.pid + '.json'))
        # <id>.json is what the last run covered; a copy per tier is kept beside it so that a quick run does not
        # erase the record of the last thorough one
        by_tier = os.path.join(EVIDENCE_DIR, 'by-tier')
        os.makedirs(by_tier, exist_ok=True)
        tmp = os.path.join(by_tier, '%s.%s.json.tmp' % (self.pid, self.tier))
        with open(tmp, 'w') as f:
            json.dump(doc, f, indent=1, sort_keys=True, default=repr)
        os.replace(tmp, os.path.join(by_tier, '%s.%s.json' % (self.pid, self.tier)))


def validate_evidence(doc):
    """The part of EVIDENCE.schema.json that applies to level model_checking
    (jsonschema is not installed in /venv; tools/validate.py runs the full schema
    under python3-vt)."""
    for k in ('property_id', 'tier', 'seed', 'level', 'coverage', 'wall_s'):
        assert k in doc, k
    assert doc['tier'] in ('quick', 'thorough')
    assert isinstance(doc['seed'], int)
    c = doc['coverage']
    for k in ('states', 'transitions'):
        assert isinstance(c[k], int) and c[k] >= 1, (k, c[k])
    assert isinstance(c['traces_validated_against_impl'], int)
    assert isinstance(c['samples'], list) and len(c['samples']) >= 1
    assert isinstance(c['evaluations'], int) and c['evaluations'] >= 1
    assert isinstance(c['distinct_nontrivial'], int)
