#!/bin/bash
# Run every claimed check (default: quick) and summarise.  usage: tools/run_all.sh [quick|thorough] [seed]
cd "$(dirname "$0")/.."
tier=${1:-quick}; seed=${2:-0}
fail=0
for p in $(/venv/bin/python -c "import json;print(' '.join(c['property_id'] for c in json.load(open('MANIFEST.json'))['checks']))"); do
  s=$(date +%s.%N)
  out=$(VERIF_SEED=$seed ./check $p --tier $tier 2>&1); rc=$?
  e=$(date +%s.%N)
  printf "%s rc=%d %.1fs %s\n" $p $rc $(echo "$e - $s" | bc) "$(echo "$out" | grep -c -E '^(VIOLATION|HARNESS-ERROR|KNOWN-FINDING)')"
  [ $rc -ne 0 ] && { fail=1; echo "$out" | head -5; }
done
exit $fail
