#!/usr/bin/env python3
"""Regenerates /verif/MANIFEST.json from the table below (one entry per property
whose check exists as mc/props/cNN.py)."""
import json
import os

here = os.path.dirname(os.path.dirname(os.path.abspath(__file__)))

TRUSTED = ('Trusted base: the hand-written explorer (mc/explore.py), the reference models under mc/ref/, '
           'CPython 3.12; small-scope bounds as stated in DESIGN.md section 3 and in the evidence file.')

CHECKS = {
    'C01': dict(
        technique='exhaustive product enumeration of printer-model lines (3 dialects x tags x argument lists) '
                  'decoded by the real parser and compared with the structured message that was printed',
        text='Every line the libwayland printer model can emit within the bound (all argument lists to length 2/3 over '
             'the value tokens, every kind at every position to 20, hostile string bodies, numeric lattices, negatives) '
             'is decoded by the real parse.message and compared field by field with the message it denotes. Lines are also sent through the parser loop (strings of 100 to 70000 characters) and through the real command line in file mode (non-ASCII strings).',
        ref='3/C01', engine='PROD'),
    'C02': dict(
        technique='explicit-state BFS over well-formed message histories executed on the real log pipeline (and, as closures, on the real GDB plugin over a GDB model), '
                  'merged on a reference object table, oracle on every transition',
        text='Well-formed single-connection histories (create by request/event/bind to two interfaces, delete_id, use, mention, foreign delete_id; client and server side, three timestamp shapes, with and without a leading get_registry) are explored to the stated depth merged on a reference object table AND unmerged to a smaller depth; every output line must carry the labels the reference predicts, the object table is compared through the Connection interface in every state; identifiers closed and reopened are covered by a BFS over the connection-id interface. Further history variants: stamps that wrap, microsecond-grained stamps, decorated creation messages, the top of the server id range, creation by an event on a destroyed object; one chain of 520/1100 reuses of an id. The same histories (BFS depth 4/6 client, 3/5 server, chains of reuses and of mentions) are also delivered as libwayland closures to the real plugin on the GDB model: labels on every line and the object table at the end; there the mentioning message has a number, an object of another interface and a fixed value before the object that matters.',
        ref='3/C02', engine='BFS'),
    'C03': dict(
        technique='explicit-state BFS over well-formed histories (client- and server-side logs, several timestamp '
                  'shapes) with a reference lifetime model checked in every reached state',
        text='Same exploration as C02; in every reached state: alive flags of all incarnations, at most one alive per id, monotone death, presence / subject / lifespan of the destruction annotation on every line, and the listing after the end of input repeats the live lines exactly. (Stamps that run backwards are left to C02: C03 quantifies over non-decreasing stamps.)',
        ref='3/C03', engine='BFS'),
    'C04': dict(
        technique='exhaustive enumeration of all order-preserving interleavings of per-connection scripts + '
                  'explicit-state BFS over open/message/close on the connection-id interface, run on the real pipeline',
        text='Every interleaving of 2-4 per-connection scripts that use the same object ids (also with all-equal timestamps and with strings quoting tagged log lines): each projection equals its solo run and its reference object table; names, roles, notices and the listing are checked absolutely. A BFS over open/message/close on the connection-id interface (merged and unmerged) covers re-opened, unknown and twice-closed ids; the real CLI runs under several hash seeds. Scripts include tags whose first line cannot be taken in, ids mentioned before their creation and a connection without any recorded message; per connection, `list *` and a capped listing must show and count exactly that connection\'s lines.',
        ref='3/C04', engine='ILV+BFS'),
    'C14': dict(
        technique='exhaustive enumeration of all letter indexes below 475254 (+ lattice to 26^8) and of every label '
                  'of every object in all bounded histories, each fed back as a matcher to the real controller',
        text='number<->letters conversion is compared with the by-construction sequence for every index through four '
             'letters; every displayed label in every explored history/interleaving is used as `X: label` matcher and must '
             'select exactly the reference set of lines, also after a session in which single connections were watched. One id is reused 9711 times to reach the labels that spell all/inf/nan/new/nil; labels of two connections are combined in one matcher; a line the tool displays under a connection name must be selected by that name. Histories in which every line carries the first time stamp (destruction at session time 0.0).',
        ref='3/C14', engine='PROD'),
    'C08': dict(
        technique='deviation-bounded exhaustive enumeration (inserted chatter lines at every position, missing final '
                  'newline, truncation at every character) of streams fed to the real parser loop through an instrumented reader',
        text='5 well-formed base streams (both tags, empty titles, gaps, strings with brackets), every placement of <=1/<=2 chatter lines from an alphabet of 15 (incl. \\x0c, U+2028, a 20000-character line), both --supress settings, every truncation point, and the real pipe-mode entry point reading one line per read: item-for-item conservation against the clean twin, pacing at every request for input, prefix + closed notices under truncation. Every base line must come out as its decoded message (never as a complaint); base streams include a late get_registry, messages only the newest shipped description has, a NULL string, messages after a protocol error; the real command line reads the same stream from a regular file and from a named pipe.',
        ref='3/C08', engine='DEV'),
    'C16': dict(
        technique='exhaustive product enumeration of logs over a microsecond gap lattice x visibility x time shift x '
                  'decimal mark x view, executed on the real pipeline, oracle in exact integer arithmetic',
        text='All logs of 3/4 messages with gaps from {0,.4,.999999,1,1.000001,1.2,2.5}s (and, with stamped non-message lines first, a string quoting a stamped line, or plain, from {-.003,0,.999999,1.000001,2.5}s), every shown/hidden pattern, '
             '4/10 constant shifts, both decimal marks, live view and list, 1-2 connections: displayed times and the '
             'presence/value of every gap separator must equal the exact reference. Empty listings between live messages, gaps of -2.5 s and 2200 s. A dense sweep of constant shifts (every microsecond and every millisecond of a range, several absolute bases) with a gap of exactly one second followed by one of a second and a microsecond; a second connection whose first lines arrive between two shown messages.',
        ref='3/C16', engine='PROD'),
    'C05': dict(
        technique='exhaustive product enumeration of matcher expressions built together with their denotation, '
                  'each evaluated by the real controller (`list`) on a universe of resolved messages',
        text='Every well-formed combination of connection x object x name x argument atoms, comma/! lists of '
             'representative patterns and respellings (blanks, redundant brackets) is executed on the real matcher via '
             '`list`; the selected lines must equal a three-valued denotational reference; parsed vs simplified matcher '
             'are cross-checked through the API. The universe has negative values, strings differing in inner blanks and an untyped nil after a typed one; atoms include overlapping wildcard affixes, alternatives that print alike, connection-only patterns; a second part reuses one id 60/720 times and asks for every incarnation by its letters.',
        ref='3/C05', engine='PROD'),
    'C06': dict(
        technique='explicit-state BFS over message/command histories on the real controller, unmerged to small depth '
                  'and merged deeper, against an unfiltered twin pipeline and a reference filter',
        text="All histories of message events on two connections (matching / non-matching / creating / destroying / on never-created objects / announcing an app id) and filter / connection commands (incl. failing ones) to the bound, from 4 initial filters, unmerged and merged: after every message the filtered view shows exactly the twin's line iff the reference filter and selection hold; the selection shown by the tool is compared with the reference after every command; recording is compared in every state and on a 70 000-message session. An unmerged search over creations and destructions of two object types under a `.destroyed` filter; `list` with a connection prefix must not change the selection.",
        ref='3/C06', engine='BFS'),
    'C11': dict(
        technique='exhaustive product enumeration of list queries (history x filter x selection x matcher x cap), '
                  'repeated and interleaved, on the real controller against a reference list()',
        text='For histories of 0/1/12/56 messages, 3 current filters, 3 selections, matchers with hand denotations and caps '
             '{absent,0,1,2,k-1,k,k+1,99}: listed lines = reference (last N under a cap), counts add up, and '
             'filter/breakpoint/selection/recorded list are unchanged. A second part demands that the record seen per connection, with none selected and in the connection listing agree (also for lines the tool cannot take in, empty titles, after re-selecting all); a third that blanks inside quoted strings of a typed matcher are kept. Every ordered pair of queries from 41 look-alikes (quoted / unquoted, blanks, caps, connection prefixes), with nothing, a new message, the same query again, or a selection round trip in between: the answer to the second equals its answer when asked alone.',
        ref='3/C11', engine='PROD'),
    'C12': dict(
        technique='exhaustive enumeration of all filter/breakpoint command sequences to the bound from 3 initial '
                  'matchers on the real controller, oracle = accumulated (alternatives, exclusions) reference',
        text='Every command sequence of length <=3/<=4 over 18 commands (alternatives, exclusions, both, *, !, bracketed, print-alike patterns, malformed incl. non-ASCII, blank) is applied to filter and breakpoint (also with the breakpoint sequence rotated so that the two differ); the live view and the Stopped-at notices over the universe equal the reference accumulation (three-valued); malformed input changes nothing; an explicit `list X` afterwards is judged on X alone. Connection-qualified commands; a part in which the messages are recorded first and `list` is asked only after the first and the last command; initial matchers come through the tool\'s own parse_args.',
        ref='3/C12', engine='BFS'),
    'C17': dict(
        technique='lock-step explicit-state BFS over a (colour on, colour off) pair of real sessions driven by the '
                  'same events, plus exhaustive paste-back of every coloured line/fragment the search produced',
        text='After every step of every explored history (log lines of every construct, every command form) the '
             'coloured output with escape sequences removed must equal the uncoloured output on both streams and in log '
             'records, and the uncoloured run emits no escape sequence of its own; every coloured fragment printed is fed '
             'back coloured and stripped to twin sessions, which must behave identically; the real command line, on a pipe and on a pseudo-terminal, with colour disabled and 10 well- and malformed -f/-b values, prints no escape sequence. The pair has a breakpoint from the start; pasted text also goes through the interactive prompt; chatter with characters some splitters take for line ends. Coloured fragments are also pasted as the value of -f / -b through parse_args itself; long sessions (filters and breakpoints accumulated over 6/14 commands, one-shot matchers of up to 40/200 alternatives) run in lock step.',
        ref='3/C17', engine='BFS'),
    'C07': dict(
        technique='exhaustive enumeration of every shipped interface x message x argument position (API and output '
                  'lines) and of all load orders of synthetic multi-version descriptions, against an independent XML reader',
        text='Exhaustive in both tiers: every argument of every message of all ~260 shipped interfaces is looked up '
             'through the API and displayed through the real pipeline; every enum-typed argument is tried with all entries, '
             'unions, 0, -1, max+1, 2^31; synthetic versions 1..3/1..4 are loaded in every permutation. Five system installations of descriptions (none, older, newer, twins) are presented through the protocol module\'s `os`; synthetic files test qualified enum references to multi-version holders and enum-only interfaces; NULL strings of all allow-null string arguments.',
        ref='3/C07', engine='PROD'),
    'C19': dict(
        technique='exhaustive product enumeration of argument vectors (units: flags, clusters, valued options with '
                  'hostile values, markers, forwarded look-alikes) on the real parse_args / run_gdb against a reference '
                  'splitter, plus a slice through the real command line (real child, real gdb -batch)',
        text='All vectors of <=3/<=4 units over 35 units with at most two markers: outcome class (error / usage / ok), '
             'mode, forwarded words verbatim, own words, flag effects and -f/-b matchers are compared with the reference; in '
             'GDB mode the recorded gdb command must end with the forwarded words and its python command must set sys.argv '
             'to the own words word for word. Words of other programs (-rf, -geometry), option values spelling a marker, empty values, `--`, a child started with standard output closed; nothing may stand between the tool\'s own gdb command and the forwarded words; a repeated -f/-b is treated as unspecified.',
        ref='3/C19', engine='PROD'),
    'C18': dict(
        technique='exhaustive product enumeration of byte-token sequences as log input in file / pipe / run mode, of '
                  'all strings to length 4/5 over a 20-character matcher alphabet, and of command words x arguments x '
                  'session states, each executed on the real code with a totality oracle',
        text='Every input within the bounds is run: logs must be consumed with every opened connection closed and nothing '
             'but SystemExit leaving the entry points (20 s alarm); every matcher string is accepted or rejected with a '
             'diagnostic and accepted ones are simplified, printed and evaluated on diverse messages; every command line '
             'produces output or an error line and leaves the session usable. A slice runs the real CLI under C and C.utf8. Every command line is typed twice; sessions with shared application ids and an overlarge time stamp; a program that closes its standard error and lingers. Every log case runs under a processor-time and a memory budget of its own (a decoder that loops until the address-space limit of the worker and then swallows the MemoryError does not count as coming back).',
        ref='3/C18', engine='PROD'),
    'C09': dict(
        technique='exhaustive product enumeration of libwayland closures laid out in real (ctypes) memory and read by '
                  'the real extractor through a GDB API model; the model is bound to GDB 13.1 by replaying scripts through a '
                  'C stub under the real GDB',
        text='Closures for every signature to length 2/3, every kind at every position to 20, the array x follower '
             'table, value lattices, ?/version placements, client/server x invoke/dispatch/send/queue are decoded by the '
             'real extract.* and compared with a reference reading, and cross-checked against the printer model decoded '
             'by the real log parser; a scenario history is run through both modes after resolution. Closures of a process that is client and server at once (the other dispatcher further out on the stack).',
        ref='3/C09', engine='PROD',
        note=TRUSTED + ' The GDB Python API is modelled (mc/fakegdb/gdb.py); the thorough tier replays 680+ closures in '
             'the installed GDB 13.1 and requires identical plugin output.'),
    'C10': dict(
        technique='explicit-state BFS over plugin event histories (messages, wl commands, continue) on the real plugin '
                  'and controller in a GDB API model, merged on the reference pause machine; exhaustive enumeration of '
                  'command lists for the terminal prompt loop',
        text='Plugin event histories (messages incl. orphan objects on three connections, connection destructions, 19 wl commands via `wl` / `wl<cmd>` incl. a connection-qualified breakpoint, continue) from 2 initial breakpoints, merged on the reference pause machine and unmerged: stop() returns True iff the reference breakpoint (C12 accumulation, hand denotations) and selection hold, with exactly one Stopped-at notice; GDB is told quit / continue / nothing as the reference says; selection and breakpoint shown by the tool equal the reference after every command. The prompt loop of file/run mode asks exactly until resume or quit. Thorough: command schedules are played in the real GDB. Events: messages on three connections incl. further surfaces and an application id equal to another connection\'s name, connection destructions, one idle minute of wall-clock time.',
        ref='3/C10', engine='BFS'),
    'C15': dict(
        technique='explicit-state BFS over libwayland events (messages on 2 addresses from 2 threads, destructions of '
                  'known / closed / never-seen connections) on the real plugin in a GDB API model, merged on a reference '
                  'connection registry; depth-4 histories replayed in the real GDB',
        text='Every event history to depth 5/7 merged on a reference registry and to depth 3/4 unmerged: messages on 2 addresses from 2 threads (first message get_registry sent / received / none, late get_registry, orphan objects), destructions of known / closed / never-seen connections, reconnects at a new address; connections open and close as the reference says with fresh object tables, nothing escapes the breakpoint handlers (disabled breakpoints do not fire, as in GDB), which never halt the program. Thorough: depth-4 histories replayed in the real GDB. Connections that begin with get_registry bind an id to different interfaces in different orders and use registries with different ids; one session of 1010/3000 short-lived connections beside an old open one; model threads other than the first have no name.',
        ref='3/C15', engine='BFS'),
    'C13': dict(
        technique='stateless exploration of all schedules (main, helper thread, child when started with Popen) of the real run_program with bounded preemptions '
                  '(settrace baton scheduler, model pipe with per-holder write ends, model time, scripted child that may close its stderr and linger) + deviation-bounded enumeration of short reads + '
                  'the real command line in three modes under several hash seeds Streams include bytes that are not UTF-8; a libwayland directory in use (--libwayland DIR; also in the schedule model); program arguments that read like option lists with g / r inside.',
        text="Every 2-thread schedule of the real run_program with <=2/<=3 preemptions (a scheduling point at every line of runner.py and every pipe operation): no deadlock or assertion, the file-mode twin's output, the child's status, the prompt after all output; every placement of <=2/<=3 cuts at every byte offset leaves the output unchanged; the real CLI gives identical stdout/stderr in file, pipe and run mode across hash seeds, with writes split inside a character, marker-like program arguments, any parent WAYLAND_DEBUG, and returns the child's exit status (all 256 in the thorough tier). The scripted child may close its standard error and linger (model time); real children: a lingering one, a bare program name (argv[0] read back), a program path with blanks and quotes, empty-string arguments, `--` among the arguments; the three modes are also compared under -f and -b.",
        ref='3/C13', engine='ILV+DEV'),
}

NOT_YET = 'check under construction in this round; will be claimed when mc/props/%s.py lands'


def main():
    props = [json.loads(l) for l in open(os.path.join(here, 'properties.jsonl'))]
    checks = []
    na = []
    for p in props:
        pid = p['id']
        c = CHECKS.get(pid)
        if c is None or not os.path.exists(os.path.join(here, 'mc', 'props', pid.lower() + '.py')):
            na.append({'property_id': pid, 'reason': NOT_YET % pid.lower()})
            continue
        checks.append({
            'property_id': pid,
            'quick_cmd': './check %s --tier quick' % pid,
            'thorough_cmd': './check %s --tier thorough' % pid,
            'evidence_file': 'evidence/%s.json' % pid,
            'replay_cmd_template': './check %s --replay {path}' % pid,
            'engine': c['engine'],
            'level_claimed': {'category': 'model_checking', 'text': c['text'], 'design_ref': 'DESIGN.md section ' + c['ref']},
            'level_note': c.get('note', TRUSTED),
            'technique': c['technique'],
        })
    m = {
        'version': 1,
        'setup_cmd': './setup.sh',
        'hooks': {
            'guard': 'WMWW_WAYLAND_DEBUG_VERIF',
            'enable': 'no hooks are needed: every seam is reachable from outside (DESIGN.md section 2.7); the guard '
                      'variable is reserved and unused',
            'baseline_off_cmd': 'cd /repo && /venv/bin/python -m pytest -ra -q -p no:cacheprovider --timeout=900 '
                                '--continue-on-collection-errors',
            'source_commits': [],
            'add_only': True,
        },
        'engines': [
            {'name': 'PROD', 'path': 'mc/explore.py', 'kind_free_text': 'exhaustive product enumeration, sharded over 16 forked workers',
             'serves_properties': [k for k, v in CHECKS.items() if 'PROD' in v['engine']]},
            {'name': 'BFS', 'path': 'mc/explore.py', 'kind_free_text': 'level-synchronous explicit-state search over event histories, states rebuilt by replay on the real code',
             'serves_properties': [k for k, v in CHECKS.items() if 'BFS' in v['engine']]},
            {'name': 'ILV', 'path': 'mc/explore.py, mc/sched.py', 'kind_free_text': 'order-preserving interleavings / thread schedules with bounded preemptions',
             'serves_properties': [k for k, v in CHECKS.items() if 'ILV' in v['engine']]},
            {'name': 'DEV', 'path': 'mc/explore.py', 'kind_free_text': 'deviation-bounded enumeration of environment answers (cuts, chatter, truncation)',
             'serves_properties': [k for k, v in CHECKS.items() if 'DEV' in v['engine']]},
        ],
        'checks': checks,
        'not_applicable': na,
        'notes': 'All checks run the real code from /repo\'s working tree under /venv/bin/python; exit 0 = held on '
                 'everything explored, exit 1 + VIOLATION line = violation, exit 2 + HARNESS-ERROR = the harness failed. '
                 'known_findings.json lists recorded genuine defects.',
    }
    with open(os.path.join(here, 'MANIFEST.json'), 'w') as f:
        json.dump(m, f, indent=1)
        f.write('\n')


if __name__ == '__main__':
    main()
