#!/venv/bin/python
"""Print the rows of DESIGN.md section 9.2 from evidence/by-tier/<id>.<tier>.json (what the last quick and the last
thorough run of each check covered on the unchanged tree)."""
import json
import os
import sys

here = os.path.dirname(os.path.dirname(os.path.abspath(__file__)))


def load(pid, tier):
    p = os.path.join(here, 'evidence', 'by-tier', '%s.%s.json' % (pid, tier))
    return json.load(open(p)) if os.path.exists(p) else None


def n(x):
    return '-' if x is None else ('%.2f M' % (x / 1e6) if x >= 1e6 else '{:,}'.format(x).replace(',', ' '))


def main():
    ids = [json.loads(l)['id'] for l in open(os.path.join(here, 'properties.jsonl'))]
    print('| id | evaluations q / t | states q / t | transitions q / t | non-trivial q / t | parts (thorough): states | wall q / t |')
    print('|----|----|----|----|----|----|----|')
    for pid in ids:
        q, t = load(pid, 'quick'), load(pid, 'thorough')
        def g(d, k):
            return None if d is None else d['coverage'].get(k)
        parts = ''
        if t is not None:
            parts = ', '.join('%s %s' % (k, n(v['states'])) for k, v in sorted(t['coverage']['parts'].items()))
        print('| %s | %s / %s | %s / %s | %s / %s | %s / %s | %s | %s s / %s s |' % (
            pid, n(g(q, 'evaluations')), n(g(t, 'evaluations')), n(g(q, 'states')), n(g(t, 'states')),
            n(g(q, 'transitions')), n(g(t, 'transitions')), n(g(q, 'distinct_nontrivial')), n(g(t, 'distinct_nontrivial')),
            parts, '-' if q is None else round(q['wall_s']), '-' if t is None else round(t['wall_s'])))


if __name__ == '__main__':
    main()
