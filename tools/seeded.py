#!/venv/bin/python
"""Seeded property-breaking changes: confirm a candidate, and run the checks against one.

  tools/seeded.py confirm <candidate dir with patch.diff + demo.py>
        scratch worktree of /repo HEAD: demo passes, patch applies, the repository's own
        suite still gives 214 passed with the baseline failures, demo fails.
  tools/seeded.py detect <seeded id | all> [--tier quick|thorough] [--checks C01,C05|owner|all]
        applies /verif/seeded/<id>/patch.diff to a scratch worktree and runs the checks
        with VERIF_REPO pointing at it (the checks registered in MANIFEST.json run against
        /repo itself; the scratch tree keeps /repo untouched while several runs go on).
Scratch worktrees live under /var/tmp and are removed afterwards.
"""
import json
import os
import re
import shutil
import subprocess
import sys
import tempfile

VERIF = os.path.dirname(os.path.dirname(os.path.abspath(__file__)))
REPO = '/repo'
PY = '/venv/bin/python'


def sh(cmd, cwd=None, env=None, timeout=3600):
    return subprocess.run(cmd, cwd=cwd, env=env, capture_output=True, text=True, timeout=timeout)


class Worktree:
    def __enter__(self):
        self.dir = tempfile.mkdtemp(prefix='verif-seed-', dir='/var/tmp')
        os.rmdir(self.dir)
        r = sh(['git', '-C', REPO, 'worktree', 'add', '-q', '--detach', self.dir, 'HEAD'])
        if r.returncode:
            raise SystemExit('cannot create worktree: ' + r.stderr)
        return self.dir

    def __exit__(self, *a):
        sh(['git', '-C', REPO, 'worktree', 'remove', '--force', self.dir])
        shutil.rmtree(self.dir, ignore_errors=True)


def suite(tree):
    r = sh([PY, '-m', 'pytest', '-q', '-p', 'no:cacheprovider', '--timeout=900', '--continue-on-collection-errors',
            '-o', 'cache_dir=/dev/null'], cwd=tree, env=dict(os.environ, PYTHONDONTWRITEBYTECODE='1'))
    m = re.search(r'(\d+) failed, (\d+) passed', r.stdout)
    failed = sorted(set(re.findall(r'^FAILED (\S+)', r.stdout, re.M)))
    return (int(m.group(1)), int(m.group(2))) if m else None, failed


def confirm(cand):
    patch = os.path.join(cand, 'patch.diff')
    demo = os.path.join(cand, 'demo.py')
    res = {}
    env = dict(os.environ, PYTHONDONTWRITEBYTECODE='1')
    with Worktree() as wt:
        base_counts, base_failed = suite(wt)
        r = sh([PY, demo], cwd=wt, env=env)
        res['demo_clean'] = (r.returncode, (r.stdout + r.stderr).strip()[-300:])
        a = sh(['git', 'apply', patch], cwd=wt)
        if a.returncode:
            res['apply'] = a.stderr
            return False, res
        counts, failed = suite(wt)
        res['suite_baseline'] = base_counts
        res['suite_with_patch'] = counts
        res['suite_same_failures'] = failed == base_failed
        r = sh([PY, demo], cwd=wt, env=env)
        res['demo_patched'] = (r.returncode, (r.stdout + r.stderr).strip()[-400:])
    ok = res['demo_clean'][0] == 0 and res['demo_patched'][0] != 0 and counts == base_counts and res['suite_same_failures'] \
        and counts is not None and counts[1] == 214
    return ok, res


def manifest_checks():
    return [c['property_id'] for c in json.load(open(os.path.join(VERIF, 'MANIFEST.json')))['checks']]


def detect(sid, tier, which):
    d = os.path.join(VERIF, 'seeded', sid)
    meta = json.load(open(os.path.join(d, 'meta.json')))
    owner = meta['property']
    if which == 'owner':
        checks = [owner]
    elif which == 'all':
        checks = manifest_checks()
    else:
        checks = which.split(',')
    out = {}
    with Worktree() as wt:
        a = sh(['git', 'apply', os.path.join(d, 'patch.diff')], cwd=wt)
        if a.returncode:
            return {'error': 'patch does not apply: ' + a.stderr}
        for c in checks:
            # evidence and replays of these runs are about the scratch tree: keep them out of /verif/evidence
            r = sh([os.path.join(VERIF, 'check'), c, '--tier', tier], cwd=VERIF,
                   env=dict(os.environ, VERIF_REPO=wt, VERIF_EVIDENCE_DIR=os.path.join(wt, '.verif-evidence'),
                            VERIF_REPLAY_DIR=os.path.join(wt, '.verif-replays')))
            kinds = sorted(set(re.findall(r'kind=(\S+)', r.stdout)))
            out[c] = {'rc': r.returncode, 'violations': r.stdout.count('VIOLATION property='), 'kinds': kinds[:6],
                      'harness_error': 'HARNESS-ERROR' in r.stdout}
    return out


def ingest(pid, k, src_root='/tmp/wt-out', tag=''):
    """Confirm the candidate src_root/<pid>/<k> and, if confirmed, keep it as seeded/<pid>-<k>/."""
    cand = os.path.join(src_root, pid, str(k))
    ok, res = confirm(cand)
    print(json.dumps({'candidate': cand, 'confirmed': ok, 'details': res}, indent=1))
    if not ok:
        return False
    dst = os.path.join(VERIF, 'seeded', '%s-%s%s' % (pid, tag, k))
    os.makedirs(dst, exist_ok=True)
    for f in ('patch.diff', 'demo.py', 'notes.md'):
        if os.path.exists(os.path.join(cand, f)):
            shutil.copy(os.path.join(cand, f), os.path.join(dst, f))
    for f in os.listdir(cand):      # auxiliary files of the demonstration
        if f not in ('patch.diff', 'demo.py', 'notes.md') and os.path.isfile(os.path.join(cand, f)) and os.path.getsize(os.path.join(cand, f)) < 200000:
            shutil.copy(os.path.join(cand, f), os.path.join(dst, f))
    notes = open(os.path.join(cand, 'notes.md')).read() if os.path.exists(os.path.join(cand, 'notes.md')) else ''
    head = sh(['git', '-C', REPO, 'log', '--format=%h', '-1']).stdout.strip()
    meta = {
        'property': pid,
        'origin': 'independent sub-agent given only the property text and a scratch worktree',
        'repo_commit': head,
        'needs_to_manifest': notes.strip()[:1500],
        'confirmed': {
            'how': 'tools/seeded.py confirm: scratch worktree of /repo HEAD; demo.py passes before and fails after the patch; '
                   'the repository suite gives the same result',
            'suite_with_patch': res.get('suite_with_patch'), 'suite_baseline': res.get('suite_baseline'),
            'demo_clean': res.get('demo_clean'), 'demo_patched': res.get('demo_patched'),
        },
    }
    json.dump(meta, open(os.path.join(dst, 'meta.json'), 'w'), indent=1)
    return True


def main():
    if len(sys.argv) < 3:
        raise SystemExit(__doc__)
    if sys.argv[1] == 'ingest':
        sys.exit(0 if ingest(*sys.argv[2:]) else 1)
    if sys.argv[1] == 'refactor':
        # a behaviour-preserving change: every check must stay silent
        patch = sys.argv[2]
        tier = sys.argv[3] if len(sys.argv) > 3 else 'quick'
        bad = {}
        with Worktree() as wt:
            a = sh(['git', 'apply', patch], cwd=wt)
            if a.returncode:
                raise SystemExit('patch does not apply: ' + a.stderr)
            counts, failed = suite(wt)
            print('suite with patch:', counts)
            for c in manifest_checks():
                r = sh([os.path.join(VERIF, 'check'), c, '--tier', tier], cwd=VERIF,
                       env=dict(os.environ, VERIF_REPO=wt, VERIF_EVIDENCE_DIR=os.path.join(wt, '.verif-evidence'),
                                VERIF_REPLAY_DIR=os.path.join(wt, '.verif-replays')))
                if r.returncode != 0:
                    bad[c] = r.stdout[-1500:]
        print(patch, 'ALARMS:' if bad else 'silent', sorted(bad))
        for c, o in bad.items():
            print('-----', c)
            print(o)
        sys.exit(1 if bad else 0)
    if sys.argv[1] == 'confirm':
        ok, res = confirm(sys.argv[2])
        print(json.dumps({'confirmed': ok, 'details': res}, indent=1))
        sys.exit(0 if ok else 1)
    if sys.argv[1] == 'detect':
        tier = 'quick'
        which = 'owner'
        args = sys.argv[3:]
        while args:
            if args[0] == '--tier':
                tier = args[1]
            elif args[0] == '--checks':
                which = args[1]
            args = args[2:]
        ids = sorted(os.listdir(os.path.join(VERIF, 'seeded'))) if sys.argv[2] == 'all' else [sys.argv[2]]
        allres = {}
        for sid in ids:
            if not os.path.isdir(os.path.join(VERIF, 'seeded', sid)):
                continue
            allres[sid] = detect(sid, tier, which)
            caught = [c for c, r in allres[sid].items() if isinstance(r, dict) and r.get('rc') == 1]
            print(sid, 'caught by', caught or 'NOTHING', {c: r.get('kinds') for c, r in allres[sid].items() if isinstance(r, dict) and r.get('rc')})
            sys.stdout.flush()
        json.dump(allres, open('/var/tmp/verif-seeded-last.json', 'w'), indent=1)


if __name__ == '__main__':
    main()
