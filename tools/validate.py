#!/opt/veriftools/pyvenv/bin/python
"""Validate MANIFEST.json and evidence/*.json against the given schemas (needs
jsonschema, which lives in the tooling venv, not in /venv)."""
import glob, json, os, sys
import jsonschema
here = os.path.dirname(os.path.dirname(os.path.abspath(__file__)))
ok = True
def check(path, schema):
    global ok
    try:
        jsonschema.validate(json.load(open(path)), json.load(open(schema)))
        print('valid  ', path)
    except Exception as e:
        ok = False
        print('INVALID', path, str(e)[:400])
check(os.path.join(here, 'MANIFEST.json'), '/root/.vp/MANIFEST.schema.json')
for p in sorted(glob.glob(os.path.join(here, 'evidence', '*.json'))):
    check(p, '/root/.vp/EVIDENCE.schema.json')
props = [json.loads(l)['id'] for l in open(os.path.join(here, 'properties.jsonl'))]
m = json.load(open(os.path.join(here, 'MANIFEST.json')))
claimed = [c['property_id'] for c in m['checks']]
na = [c['property_id'] for c in m.get('not_applicable', [])]
for p in props:
    if (p in claimed) == (p in na):
        ok = False
        print('property', p, 'must be exactly one of claimed / not_applicable')
sys.exit(0 if ok else 1)
