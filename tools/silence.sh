#!/bin/bash
# tools/silence.sh <checks comma separated | all> [tier] - every behaviour-preserving (refactorings/) and legitimate behaviour-changing
# (legit-changes/) patch on a scratch worktree: the named checks must stay silent.  Prints one line per patch.
cd "$(dirname "$0")/.."
checks=${1:-all}; tier=${2:-quick}
one() {
  p=$1; checks=$2; tier=$3
  wt=$(mktemp -d /var/tmp/verif-sil-XXXXXX); rmdir $wt
  git -C /repo worktree add -q --detach $wt HEAD || { echo "$p WORKTREE-FAILED"; return; }
  if ! git -C $wt apply $PWD/$p/patch.diff 2>/dev/null; then echo "$p DOES-NOT-APPLY"; git -C /repo worktree remove --force $wt; return; fi
  bad=""
  if [ "$checks" = all ]; then list=$(/venv/bin/python -c "import json;print(' '.join(c['property_id'] for c in json.load(open('MANIFEST.json'))['checks']))"); else list=${checks//,/ }; fi
  for c in $list; do
    out=$(VERIF_REPO=$wt VERIF_EVIDENCE_DIR=$wt/.ev VERIF_REPLAY_DIR=$wt/.rp ./check $c --tier $tier 2>&1); rc=$?
    [ $rc -ne 0 ] && bad="$bad $c(rc=$rc:$(echo "$out" | grep -o 'kind=[a-z_.A-Z]*' | sort -u | head -3 | tr '\n' ' '))"
  done
  echo "$p ${bad:-silent}"
  git -C /repo worktree remove --force $wt
}
export -f one
ls -d refactorings/*/ legit-changes/*/ | sed 's:/$::' | VERIF_WORKERS=${VERIF_WORKERS:-4} xargs -P ${PAR:-5} -I{} bash -c "one {} $checks $tier"
