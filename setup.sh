#!/bin/bash
# Offline setup: nothing to build or fetch (pure Python, standard library only).
# Binds the environment models to the real artefacts in this image and fails loudly
# if the interpreter or the repository is missing.
set -e
cd "$(dirname "${BASH_SOURCE[0]}")"
test -x /venv/bin/python
test -d "${VERIF_REPO:-/repo}/core"
mkdir -p evidence
/venv/bin/python -m mc.bindcheck
