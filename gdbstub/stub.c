/* A stub "libwayland": the structures and function names wayland-debug's GDB plugin
 * looks at, and a main() that interprets an event script (the same script the fake
 * inferior of /verif/mc/gdbenv.py interprets).  Built -g -O0 and run under the real
 * GDB with the real plugin, to bind the GDB API model to GDB itself.
 *
 * Script lines:
 *   MSG <sent> <side c|s> <via invoke|dispatch|send|queue> <conn> <iface> <id> <name> <sig> <nargs>
 *   ARG i|u|f|h <value>
 *   ARG s <hex bytes | ->            (- = NULL)
 *   ARG o <declared iface | -> <actual iface | -> <id>     (id 0 = NULL object)
 *   ARG n <declared iface | -> <id>
 *   ARG a <count> <v1> <v2> ...
 *   DESTROY <conn>
 */
#include <stdint.h>
#include <stddef.h>
#include <stdio.h>
#include <stdlib.h>
#include <string.h>

typedef int32_t wl_fixed_t;
struct wl_interface;
struct wl_message { const char *name; const char *signature; const struct wl_interface **types; };
struct wl_interface { const char *name; int version; int method_count; const struct wl_message *methods; int event_count; const struct wl_message *events; };
struct wl_object { const struct wl_interface *interface; const void *implementation; uint32_t id; };
struct wl_array { size_t size; size_t alloc; void *data; };
union wl_argument { int32_t i; uint32_t u; wl_fixed_t f; const char *s; struct wl_object *o; uint32_t n; struct wl_array *a; int32_t h; };
struct wl_list { struct wl_list *prev, *next; };
struct wl_proxy;
struct wl_closure { int count; const struct wl_message *message; uint32_t opcode; uint32_t sender_id; union wl_argument args[20]; struct wl_list link; struct wl_proxy *proxy; struct wl_array extra[0]; };
struct wl_connection { char in_buf[24]; int fd; int want_flush; };
struct wl_display { struct wl_object proxy_object; void *pad[3]; struct wl_connection *connection; int last_error; };
struct wl_client { struct wl_connection *connection; void *source; void *display; };
struct wl_resource { struct wl_object object; void *destroy; struct wl_list link; struct wl_list deprecated_destroy_signal; struct wl_client *client; void *data; };

#define NOINLINE __attribute__((noinline))
void NOINLINE wl_closure_invoke(struct wl_closure *closure, uint32_t flags, struct wl_object *target, uint32_t opcode, void *data) { asm volatile("" ::: "memory"); }
void NOINLINE wl_closure_dispatch(struct wl_closure *closure, void *dispatcher, struct wl_object *target, uint32_t opcode) { asm volatile("" ::: "memory"); }
int NOINLINE serialize_closure(struct wl_closure *closure, uint32_t *buffer, size_t buffer_count) { asm volatile("" ::: "memory"); return 0; }
int NOINLINE wl_closure_send(struct wl_closure *closure, struct wl_connection *connection) { int r = serialize_closure(closure, NULL, 0); asm volatile("" ::: "memory"); return r; }
int NOINLINE wl_closure_queue(struct wl_closure *closure, struct wl_connection *connection) { int r = serialize_closure(closure, NULL, 0); asm volatile("" ::: "memory"); return r; }
void NOINLINE wl_connection_destroy(struct wl_connection *connection) { asm volatile("" ::: "memory"); }
void NOINLINE dispatch_event(struct wl_display *display, struct wl_closure *closure, struct wl_object *target, int use_dispatch) {
  if (use_dispatch) wl_closure_dispatch(closure, NULL, target, closure->opcode); else wl_closure_invoke(closure, 1, target, closure->opcode, NULL);
  asm volatile("" ::: "memory");
}
void NOINLINE wl_client_connection_data(struct wl_closure *closure, struct wl_object *target, int use_dispatch) {
  if (use_dispatch) wl_closure_dispatch(closure, NULL, target, closure->opcode); else wl_closure_invoke(closure, 2, target, closure->opcode, NULL);
  asm volatile("" ::: "memory");
}

#define MAXCONN 64
static struct wl_connection conns[MAXCONN];
static struct wl_display displays[MAXCONN];
static struct wl_client clients[MAXCONN];

static struct wl_interface *iface(const char *name) {
  struct wl_interface *i = calloc(1, sizeof *i);
  i->name = strdup(name); i->version = 1;
  return i;
}
static char *unhex(const char *h) {
  size_t n = strlen(h) / 2; char *s = calloc(n + 1, 1);
  for (size_t k = 0; k < n; k++) { unsigned v; sscanf(h + 2 * k, "%2x", &v); s[k] = (char)v; }
  return s;
}

int main(int argc, char **argv) {
  if (argc < 2) return 2;
  FILE *f = fopen(argv[1], "r");
  if (!f) return 3;
  for (int c = 0; c < MAXCONN; c++) { conns[c].fd = 100 + c; displays[c].connection = &conns[c]; clients[c].connection = &conns[c]; }
  static char line[1 << 16];
  while (fgets(line, sizeof line, f)) {
    char kw[16];
    if (sscanf(line, "%15s", kw) != 1) continue;
    if (!strcmp(kw, "DESTROY")) { int c; sscanf(line, "%*s %d", &c); wl_connection_destroy(&conns[c]); continue; }
    if (strcmp(kw, "MSG")) continue;
    int sent, conn, nargs; unsigned id; char side[4], via[16], ifn[128], name[128], sig[128];
    sscanf(line, "%*s %d %3s %15s %d %127s %u %127s %127s %d", &sent, side, via, &conn, ifn, &id, name, sig, &nargs);
    if (!strcmp(sig, "-")) sig[0] = 0;
    struct wl_closure *cl = calloc(1, sizeof *cl);
    struct wl_message *m = calloc(1, sizeof *m);
    const struct wl_interface **types = calloc(nargs + 1, sizeof *types);
    m->name = strdup(name); m->signature = strdup(sig); m->types = types;
    cl->count = nargs; cl->message = m; cl->sender_id = id;
    int recv_client = !sent && side[0] == 'c';
    for (int i = 0; i < nargs; i++) {
      fgets(line, sizeof line, f);
      char code[4], a1[1 << 12], a2[256]; long long v; unsigned oid;
      sscanf(line, "%*s %3s", code);
      switch (code[0]) {
      case 'i': sscanf(line, "%*s %*s %lld", &v); cl->args[i].i = (int32_t)v; break;
      case 'u': sscanf(line, "%*s %*s %lld", &v); cl->args[i].u = (uint32_t)v; break;
      case 'f': sscanf(line, "%*s %*s %lld", &v); cl->args[i].f = (int32_t)v; break;
      case 'h': sscanf(line, "%*s %*s %lld", &v); cl->args[i].h = (int32_t)v; break;
      case 's': sscanf(line, "%*s %*s %4095s", a1); cl->args[i].s = strcmp(a1, "-") ? unhex(strcmp(a1, "=") ? a1 : "") : NULL; break;
      case 'o': {
        sscanf(line, "%*s %*s %255s %255s %u", a1, a2, &oid);
        if (strcmp(a1, "-")) types[i] = iface(a1);
        if (oid) { struct wl_object *o = calloc(1, sizeof *o); o->interface = iface(a2); o->id = oid; cl->args[i].o = o; }
        break; }
      case 'n': {
        sscanf(line, "%*s %*s %255s %u", a1, &oid);
        if (strcmp(a1, "-")) types[i] = iface(a1);
        if (recv_client) { struct wl_object *o = calloc(1, sizeof *o); o->interface = iface(strcmp(a1, "-") ? a1 : "zz_actual"); o->id = oid; cl->args[i].o = o; }
        else cl->args[i].n = oid;
        break; }
      case 'a': {
        int cnt, off = 0, adv; sscanf(line, "%*s %*s %d%n", &cnt, &off);
        struct wl_array *arr = calloc(1, sizeof *arr); int32_t *data = calloc(cnt + 1, sizeof *data);
        char *p = line + off;
        for (int k = 0; k < cnt; k++) { sscanf(p, "%lld%n", &v, &adv); data[k] = (int32_t)v; p += adv; }
        arr->size = 4 * cnt; arr->alloc = 4 * (cnt + 1); arr->data = data; cl->args[i].a = arr;
        break; }
      }
    }
    if (sent) {
      if (!strcmp(via, "queue")) wl_closure_queue(cl, &conns[conn]); else wl_closure_send(cl, &conns[conn]);
    } else if (side[0] == 'c') {
      struct wl_object *t = calloc(1, sizeof *t); t->interface = iface(ifn); t->id = id;
      dispatch_event(&displays[conn], cl, t, !strcmp(via, "dispatch"));
    } else {
      struct wl_resource *r = calloc(1, sizeof *r); r->object.interface = iface(ifn); r->object.id = id; r->client = &clients[conn];
      wl_client_connection_data(cl, &r->object, !strcmp(via, "dispatch"));
    }
  }
  return 0;
}
