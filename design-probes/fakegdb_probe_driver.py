import sys, ctypes as C, logging
sys.path.insert(0,'/tmp/probe/fg'); sys.path.insert(0,'/repo'); sys.argv=['main.py']
logging.disable(logging.CRITICAL)
import gdb
from backends.gdb_plugin import extract, plugin
from core import ConnectionManager, matcher
from core.output import stream, Output
from core.wl import protocol
from frontends.tui import Controller
from core.util import set_color_output
set_color_output(False)
n=[0.0]
def clock(): n[0]+=0.001; return n[0]
extract.time_now=clock; plugin.time_now=clock
out=stream.String(); err=stream.String(); o=Output(False,True,out,err)
protocol.load_all(o)
cm=ConnectionManager(); ctl=Controller(o,cm,matcher.always,matcher.parse('.enter').simplify())
pl=plugin.Plugin(o,cm,ctl,ctl)
bps={b.spec:b for b in gdb.breakpoints()}
print(sorted(bps))
keep=[]
def iface(name): 
    i=gdb.wl_interface(name.encode(),1,0,None,0,None); keep.append(i); return i
surf=iface('wl_surface'); kb=iface('wl_keyboard')
types=(C.POINTER(gdb.wl_interface)*4)(None,C.pointer(surf),None,None); keep.append(types)
def closure(name,sig,sender,types,fill):
    m=gdb.wl_message(name.encode(),sig.encode(),C.cast(types,C.POINTER(C.POINTER(gdb.wl_interface)))); keep.append(m)
    c=gdb.wl_closure(); c.message=C.pointer(m); c.sender_id=sender; fill(c); keep.append(c); return c
conn=gdb.wl_connection(5); client=gdb.wl_client(C.pointer(conn)); keep+= [conn,client]
res=gdb.wl_resource(); res.object.interface=C.pointer(kb); res.object.id=7; res.client=C.pointer(client); keep.append(res)
sobj=gdb.wl_object(C.pointer(surf),None,5); keep.append(sobj)
for nkeys in (0,1,2,3,4):
    keys=(C.c_int*max(nkeys,1))(*[69,420,7,8][:nkeys]); arr=gdb.wl_array(4*nkeys,16,C.cast(keys,C.c_void_p)); keep+=[keys,arr]
    def fill(c):
        c.args[0].u=1234; c.args[1].o=C.pointer(sobj); c.args[2].a=C.pointer(arr); c.args[3].u=99
    c=closure('enterx','uoau',7,types,fill)
    gdb._frame=gdb.Frame('wl_closure_invoke',{'closure':gdb.ptr_value(c,gdb.wl_closure),'target':gdb.Value(gdb.Type(gdb.wl_object,1),val=C.addressof(res.object))},
                          gdb.Frame('wl_client_connection_data',{}))
    try:
        cid,msg=extract.received_message()
        print(nkeys, cid, msg.obj.type, msg.obj.id, msg.name, [ (type(a).__name__, getattr(a,'value',getattr(a,'values',None)) if not hasattr(a,'obj') else (a.obj.type,a.obj.id)) for a in msg.args])
    except Exception as e:
        import traceback; traceback.print_exc()
# drive through breakpoint stop()
def fillf(c): c.args[0].f=384
c=closure('zz','f',7,types,fillf)
gdb._frame=gdb.Frame('wl_closure_invoke',{'closure':gdb.ptr_value(c,gdb.wl_closure),'target':gdb.Value(gdb.Type(gdb.wl_object,1),val=C.addressof(res.object))}, gdb.Frame('wl_client_connection_data',{}))
r=bps['wl_closure_invoke'].stop(); print('stop ->',r); print(out.buffer); print('ERR',err.buffer)
# destroy unknown connection
conn2=gdb.wl_connection(6); keep.append(conn2)
gdb._frame=gdb.Frame('wl_connection_destroy',{'connection':gdb.ptr_value(conn2,gdb.wl_connection)})
try: print('destroy ->', bps['wl_connection_destroy'].stop())
except Exception as e: print('destroy raised', type(e).__name__, e)
