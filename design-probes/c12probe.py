import itertools, re, logging
exec(open('c05probe.py').read().split("n=0; bad=0; dc=0")[0])
# atoms for commands with denotations on messages
def P(o=None,nm=None,a=None,c=None):
    c=c or conn_atoms[0]; 
    if nm is None and a is None: return bare(c,o)
    return pattern(c,o or obj_atoms[0], nm or name_atoms[0], a or arg_atoms[0])
oa=dict(obj_atoms); na=dict((k,v) for k,v in name_atoms if k is not None)
ptr=('wl_pointer',lambda o:o[0]=='wl_pointer'); surf=('wl_surface',lambda o:o[0]=='wl_surface')
alts={'wl_pointer':bare(conn_atoms[0],ptr), '.commit':pattern(conn_atoms[0],obj_atoms[0],('commit',na['commit']),arg_atoms[0]),
      'wl_surface':bare(conn_atoms[0],surf), '.motion':pattern(conn_atoms[0],obj_atoms[0],('motion',lambda n:n=='motion'),arg_atoms[0]),
      'B:':lambda m:m[0]=='B', '*':lambda m:True}
cmds=[(['wl_pointer'],[]),(['wl_pointer','.commit'],[]),([],['.motion']),([],['wl_surface','.commit']),(['B:'],['.commit']),(['*'],[]),'!','[','a:b:c',(['wl_surface'],['B:'])]
def text(c):
    if isinstance(c,str): return c
    return ', '.join(c[0])+(' ! '+', '.join(c[1]) if c[1] else '')
def run(seq, init):
    s=Sess(filt=None); s.feed(LOG)
    if init!='*': s.cmd('filter '+init)
    # ref state
    ref = ('const',True) if init=='*' else None
    if init=='!': ref=('const',False)
    if init=='wl_pointer': ref=('list',['wl_pointer'],[])
    for c in seq:
        o,e=s.cmd('filter '+text(c))
        cur=no_color(o).strip().split('match ')[-1]
        # ref step
        if c in('[','a:b:c'):
            assert 'Failed to parse' in e, (seq,c,e)
        elif c=='!':
            ref=('const',False)
        else:
            pos,neg=c
            if ref[0]=='const':
                p=list(pos) if pos else ['*']; ref=('list',p,list(neg))
            else:
                p=[x for x in list(pos)+ref[1]]; 
                if any(x!='*' for x in p): p=[x for x in p if x!='*']
                if not p: p=['*']
                ref=('list',p,list(neg)+ref[2])
            if ref[0]=='list' and ref[1]==['*'] and not ref[2]: ref=('const',True)
        # printed constness
        printed_const = cur in('*','!')
        refconst = ref[0]=='const'
        if printed_const!=refconst: return ('CONSTMISMATCH',seq,c,cur,ref)
        o2,_=s.cmd('list')
        got=[l in o2.split('\n') for l in lines]
        for i,m in enumerate(U):
            if ref[0]=='const': r=ref[1]
            else: r=any(alts[x](m) for x in ref[1]) and not any(alts[x](m) for x in ref[2])
            if r is None: continue
            if r!=got[i]: return ('MISMATCH',[text(x) for x in seq],text(c),cur,ref,lines[i])
    return None
bad=0;n=0
for init in ['*','!','wl_pointer']:
  for L in range(1,4):
    for seq in itertools.product(cmds,repeat=L):
        n+=1
        r=run(seq,init)
        if r: 
            bad+=1
            if bad<8: print(init,r)
print('seqs',n,'bad',bad)
