# throw-away feasibility probe of a ctypes-backed fake gdb module
import ctypes as C, struct
TYPE_CODE_PTR=1; TYPE_CODE_STRUCT=3; TYPE_CODE_INT=8
COMMAND_DATA=0; STDERR=1; STDOUT=0
class error(Exception): pass
class wl_interface(C.Structure): pass
class wl_message(C.Structure): _fields_=[('name',C.c_char_p),('signature',C.c_char_p),('types',C.POINTER(C.POINTER(wl_interface)))]
wl_interface._fields_=[('name',C.c_char_p),('version',C.c_int),('method_count',C.c_int),('methods',C.POINTER(wl_message)),('event_count',C.c_int),('events',C.POINTER(wl_message))]
class wl_object(C.Structure): _fields_=[('interface',C.POINTER(wl_interface)),('implementation',C.c_void_p),('id',C.c_uint32)]
class wl_array(C.Structure): _fields_=[('size',C.c_size_t),('alloc',C.c_size_t),('data',C.c_void_p)]
class wl_argument(C.Union): _fields_=[('i',C.c_int32),('u',C.c_uint32),('f',C.c_int32),('s',C.c_char_p),('o',C.POINTER(wl_object)),('n',C.c_uint32),('a',C.POINTER(wl_array)),('h',C.c_int32)]
class wl_list(C.Structure): pass
wl_list._fields_=[('prev',C.POINTER(wl_list)),('next',C.POINTER(wl_list))]
class wl_closure(C.Structure): _fields_=[('count',C.c_int),('message',C.POINTER(wl_message)),('opcode',C.c_uint32),('sender_id',C.c_uint32),('args',wl_argument*20),('link',wl_list),('proxy',C.c_void_p)]
class wl_connection(C.Structure): _fields_=[('fd',C.c_int)]
class wl_display(C.Structure): _fields_=[('connection',C.POINTER(wl_connection))]
class wl_client(C.Structure): _fields_=[('connection',C.POINTER(wl_connection))]
class wl_resource(C.Structure): _fields_=[('object',wl_object),('client',C.POINTER(wl_client))]
NAMED={'char':C.c_char,'int':C.c_int,'struct wl_resource':wl_resource}
def _is_ptr(t): return isinstance(t,type) and (issubclass(t,C._Pointer) or t in (C.c_char_p,C.c_void_p))
def _target(t):
    if t is C.c_char_p: return C.c_char
    if t is C.c_void_p: return None
    return t._type_
class Field:
    def __init__(s,name,bitpos,type): s.name=name; s.bitpos=bitpos; s.type=type
class Type:
    def __init__(s,ct,ptr=0): s.ct=ct; s.ptr=ptr   # ptr = extra levels of pointer on top of ct
    @property
    def code(s): return TYPE_CODE_PTR if (s.ptr or _is_ptr(s.ct)) else (TYPE_CODE_STRUCT if issubclass(s.ct,(C.Structure,C.Union)) else TYPE_CODE_INT)
    @property
    def name(s):
        if s.ptr or _is_ptr(s.ct): return None
        return s.ct.__name__ if issubclass(s.ct,(C.Structure,C.Union)) else {C.c_char:'char',C.c_int:'int'}.get(s.ct,s.ct.__name__)
    @property
    def sizeof(s): return 8 if s.ptr else C.sizeof(s.ct)
    def pointer(s): return Type(s.ct,s.ptr+1)
    def target(s):
        if s.ptr: return Type(s.ct,s.ptr-1)
        return Type(_target(s.ct))
    def fields(s): return [Field(n,getattr(s.ct,n).offset*8,Type(t)) for n,t in s.ct._fields_]
def lookup_type(name): return Type(NAMED[name])
class Value:
    # either lvalue at address (type,addr) or immediate (type,val)
    def __init__(s,type,addr=None,val=None): s.type=type; s.addr=addr; s.val=val
    def _load(s):
        if s.addr is None: return s.val
        t=s.type
        if t.ptr or _is_ptr(t.ct): return C.c_void_p.from_address(s.addr).value or 0
        return t.ct.from_address(s.addr).value
    def __int__(s):
        v=s._load()
        if isinstance(v,bytes): return v[0]
        return int(v)
    def cast(s,t): return Value(t,val=int(s)) if (s.type.code==TYPE_CODE_PTR or s.type.code==TYPE_CODE_INT) else Value(t,addr=s.addr)
    def __add__(s,n):
        assert s.type.code==TYPE_CODE_PTR
        return Value(s.type,val=int(s)+n*s.type.target().sizeof)
    def dereference(s):
        assert s.type.code==TYPE_CODE_PTR
        a=int(s)
        if a==0: raise error('Cannot access memory at address 0x0')
        return Value(s.type.target(),addr=a)
    def string(s):
        a=int(s)
        if a==0: raise error('null string')
        return C.string_at(a).decode('utf-8')
    def __getitem__(s,k):
        t=s.type
        if isinstance(k,int):
            if t.code==TYPE_CODE_PTR: return Value(t.target(),addr=int(s)+k*t.target().sizeof)
            if issubclass(t.ct,C.Array): return Value(Type(t.ct._type_),addr=s.addr+k*C.sizeof(t.ct._type_))
        if t.code==TYPE_CODE_PTR: return s.dereference()[k]
        f=getattr(t.ct,k); ft=dict(t.ct._fields_)[k]
        return Value(Type(ft),addr=s.addr+f.offset)
    def __str__(s): return str(int(s))
class _Thread: global_num=1
_thread=_Thread()
def selected_thread(): return _thread
class Frame:
    def __init__(s,name,vars,older=None): s._name=name; s.vars=vars; s._older=older
    def name(s): return s._name
    def read_var(s,n): return s.vars[n]
    def older(s): return s._older
_frame=None
def selected_frame(): return _frame
executed=[]
def execute(c): executed.append(c)
written=[]
def write(s,stream=None): written.append(s)
def parse_and_eval(expr):
    import re
    m=re.fullmatch(r'\(double\)\(void\*\)\(\(\(1023LL \+ 44LL\) << 52\) \+ \(1LL << 51\) \+ (-?\d+)\) - \(3LL << 43\)',expr)
    assert m, expr
    bits=(((1023+44)<<52)+(1<<51)+int(m.group(1))) & (2**64-1)
    return struct.unpack('<d',struct.pack('<Q',bits))[0]-(3<<43)
_bps=[]
def breakpoints(): return list(_bps)
class Breakpoint:
    def __init__(s,spec,internal=False,qualified=False): s.spec=spec; _bps.append(s)
class Command:
    def __init__(s,name,cls): s.name=name
def ptr_value(ctobj, ct): return Value(Type(ct,1),val=C.addressof(ctobj))
