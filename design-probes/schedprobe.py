import sys, threading, types, io, collections, logging
sys.path.insert(0,'/repo'); sys.argv=['main.py']
logging.disable(logging.CRITICAL)
from backends.libwayland_debug_output import runner
from core import ConnectionManager, matcher
from core.output import stream, Output
from core.wl import message as wm
from frontends.tui import Controller, Arguments
RUNNER_FILE = runner.__file__
real_threading = threading

class Deadlock(Exception): pass
class Sched:
    def __init__(self, choices):
        self.choices=list(choices); self.trace=[]; self.points=[]
        self.threads={}   # name -> state dict
        self.cur=None; self.lock=real_threading.Lock()
    def register(self, name):
        self.threads[name]={'sem':real_threading.Semaphore(0),'blocked':None,'done':False}
    def enabled(self):
        out=[]
        for n,t in self.threads.items():
            if t['done']: continue
            if t['blocked'] is not None and not t['blocked'](): continue
            out.append(n)
        return out
    def point(self, me, blocked=None):
        # called by running thread `me`; may switch
        self.threads[me]['blocked']=blocked
        en=self.enabled()
        if not en: raise Deadlock(str({n:(t['done'],t['blocked'] is not None) for n,t in self.threads.items()}))
        order=([me] if me in en else [])+sorted(x for x in en if x!=me)
        i=len(self.trace)
        c=self.choices[i] if i<len(self.choices) else 0
        if c>=len(order): raise RuntimeError('bad choice')
        self.trace.append(c); self.points.append((me, tuple(order)))
        nxt=order[c]
        if nxt!=me:
            self.cur=nxt
            self.threads[nxt]['sem'].release()
            self.threads[me]['sem'].acquire()
        self.threads[me]['blocked']=None
    def finish(self, me):
        self.threads[me]['done']=True
        en=self.enabled()
        if en:
            nxt=sorted(en)[0]; self.cur=nxt; self.threads[nxt]['sem'].release()

class Pipe:
    def __init__(self, cap): self.buf=collections.deque(); self.cap=cap; self.wclosed=False; self.pending=''
def make_env(S, script, status, cap):
    pipe=Pipe(cap)
    def tracer(frame, event, arg):
        if frame.f_code.co_filename!=RUNNER_FILE: return None
        def local(frame, event, arg):
            if event=='line': S.point(real_threading.current_thread().name)
            return local
        return local
    class FakeFile:
        def __enter__(s): return s
        def __exit__(s,*a): return False
        def readline(s):
            me=real_threading.current_thread().name
            while True:
                if '\n' in pipe.pending:
                    i=pipe.pending.index('\n'); l=pipe.pending[:i+1]; pipe.pending=pipe.pending[i+1:]; return l
                S.point(me, blocked=lambda: bool(pipe.buf) or pipe.wclosed)
                if pipe.buf: pipe.pending+=pipe.buf.popleft(); continue
                if pipe.wclosed:
                    l=pipe.pending; pipe.pending=''; return l
    fos=types.SimpleNamespace(environ=dict(), pipe=lambda:(100,101), fdopen=lambda fd,mode:FakeFile(), close=lambda fd: (S.point(real_threading.current_thread().name), setattr(pipe,'wclosed',True)))
    class CP: pass
    def frun(args, stderr=None, env=None, bufsize=None):
        me=real_threading.current_thread().name
        for chunk in script:
            S.point(me, blocked=lambda: len(pipe.buf)<pipe.cap)
            pipe.buf.append(chunk)
        r=CP(); r.returncode=status; return r
    fsub=types.SimpleNamespace(run=frun)
    class FThread:
        def __init__(s, name=None, target=None):
            s.name=name; s.target=target; s.t=None
        def start(s):
            S.register(s.name)
            def body():
                S.threads[s.name]['sem'].acquire()
                sys.settrace(tracer)
                try: s.target()
                finally:
                    sys.settrace(None); S.finish(s.name)
            s.t=real_threading.Thread(target=body, name=s.name, daemon=True); s.t.start()
            S.point('main')
        def join(s, timeout=None):
            S.point('main', blocked=lambda: S.threads[s.name]['done'])
        def is_alive(s): return not S.threads[s.name]['done']
    fthr=types.SimpleNamespace(Thread=FThread)
    return fos, fsub, fthr, tracer

def execute(choices, script, status, cap):
    S=Sched(choices); S.register('main')
    fos,fsub,fthr,tracer=make_env(S, script, status, cap)
    runner.os, runner.subprocess, runner.threading = fos, fsub, fthr
    wm.Message.base_time=None
    out=stream.String(); err=stream.String(); o=Output(False, True, out, err)
    cm=ConnectionManager(); ctl=Controller(o, cm, matcher.always, matcher.never)
    args=Arguments.default(); args.command_args=['prog']
    real_threading.current_thread().name='main'
    sys.settrace(tracer)
    try:
        rc=runner.run_program(o, args, cm, ctl, ctl, lambda p: 'q')
        res=('ok', rc, out.buffer)
    except Deadlock as e: res=('deadlock', str(e), out.buffer)
    except AssertionError as e: res=('assert', str(e), out.buffer)
    finally: sys.settrace(None)
    return res, S

def explore(script, status, cap, bound):
    seen=collections.Counter(); n=0
    stack=[[]]
    while stack:
        prefix=stack.pop()
        res,S=execute(prefix, script, status, cap); n+=1
        seen[(res[0], res[1], res[2])]+=1
        # preemption count
        pre=0
        costs=[]
        for i,(me,order) in enumerate(S.points):
            c=S.trace[i]
            costs.append(pre)
            if c!=0 and order[0]==me: pre+=1
        for i in range(len(prefix), len(S.points)):
            me,order=S.points[i]
            for alt in range(1,len(order)):
                cost=costs[i]+(1 if order[0]==me else 0)
                if cost<=bound: stack.append(S.trace[:i]+[alt])
    return n, seen
if __name__=='__main__':
    import time
    script=['[1000.000]  -> wl_display@1.sync(new id wl_callback@3)\n[1000.1','00] wl_callback@3.done(1)\nlast']
    for b in (0,1,2):
        t=time.time(); n,seen=explore(script, 37, 1, b)
        print('bound',b,'schedules',n,'outcomes',len(seen), 'time %.1fs'%(time.time()-t))
        for k,v in seen.items(): print('   ',k[0],k[1],repr(k[2][-60:]),v)
