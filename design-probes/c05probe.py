import itertools, re, logging
from sess import *
logging.disable(logging.CRITICAL)
LOG = '''[1000.000] <1>  -> wl_display@1.get_registry(new id wl_registry@2)
[1000.100] <1> wl_registry@2.global(1, "wl_compositor", 4)
[1000.200] <1>  -> wl_registry@2.bind(1, "wl_compositor", 4, new id [unknown]@3)
[1000.300] <1>  -> wl_compositor@3.create_surface(new id wl_surface@4)
[1000.400] <1>  -> wl_surface@4.attach(nil, 0, 0)
[1000.500] <1>  -> wl_surface@4.commit()
[1000.600] <1>  -> wl_surface@4.destroy()
[1000.700] <1> wl_display@1.delete_id(4)
[1000.800] <1>  -> wl_compositor@3.create_surface(new id wl_surface@4)
[1000.900] <1>  -> wl_surface@4.set_buffer_scale(2)
[1001.000] <1>  -> wl_surface@4.commit()
[1001.100] <1>  -> wl_registry@2.bind(2, "wl_seat", 5, new id [unknown]@5)
[1001.200] <1>  -> wl_seat@5.get_pointer(new id wl_pointer@6)
[1001.300] <1> wl_pointer@6.enter(7, wl_surface@4, 1.50000000, 0.00000000)
[1001.400] <1> wl_pointer@6.button(8, 100, 272, 1)
[1001.500] <1> wl_pointer@6.button(9, 101, 272, 0)
[1001.600] <1> wl_pointer@6.motion(102, 0.00000000, 2.00000000)
[1001.700] <1>  -> wl_pointer@6.set_cursor(7, nil, 0, 0)
[1001.800] <2>  -> wl_display@1.get_registry(new id wl_registry@2)
[1001.900] <2>  -> wl_registry@2.bind(1, "wl_compositor", 4, new id [unknown]@3)
[1002.000] <2>  -> wl_compositor@3.create_surface(new id wl_surface@4)
[1002.100] <2>  -> wl_surface@4.commit()
[1002.200] <2>  -> wl_surface@4.set_buffer_scale(0)
'''
s=Sess(); s.feed(LOG)
lines=[l for l in s.out.buffer.split('\n') if re.match(r'\s*\d+\.\d+ [A-Z]+:',l)]
print(len(lines))
# reference view, hand-authored: (conn, objtype, id, gen, name, args[(name,kind,val,extra)], news[(type,id,gen)], destroyed)
def O(t,i,g): return (t,i,g)
U=[
 ('A',O('wl_display',1,0),'get_registry',[('registry','new',O('wl_registry',2,0))],None),
 ('A',O('wl_registry',2,0),'global',[('name','int',1),('interface','str','wl_compositor'),('version','int',4)],None),
 ('A',O('wl_registry',2,0),'bind',[(None,'int',1),(None,'str','wl_compositor'),(None,'int',4),(None,'new',O('wl_compositor',3,0))],None),
 ('A',O('wl_compositor',3,0),'create_surface',[('id','new',O('wl_surface',4,0))],None),
 ('A',O('wl_surface',4,0),'attach',[('buffer','nil','wl_buffer'),('x','int',0),('y','int',0)],None),
 ('A',O('wl_surface',4,0),'commit',[],None),
 ('A',O('wl_surface',4,0),'destroy',[],None),
 ('A',O('wl_display',1,0),'delete_id',[('id','int',4)],O('wl_surface',4,0)),
 ('A',O('wl_compositor',3,0),'create_surface',[('id','new',O('wl_surface',4,1))],None),
 ('A',O('wl_surface',4,1),'set_buffer_scale',[('scale','int',2)],None),
 ('A',O('wl_surface',4,1),'commit',[],None),
 ('A',O('wl_registry',2,0),'bind',[(None,'int',2),(None,'str','wl_seat'),(None,'int',5),(None,'new',O('wl_seat',5,0))],None),
 ('A',O('wl_seat',5,0),'get_pointer',[('id','new',O('wl_pointer',6,0))],None),
 ('A',O('wl_pointer',6,0),'enter',[('serial','int',7),('surface','obj',O('wl_surface',4,1)),('surface_x','float',1.5),('surface_y','float',0.0)],None),
 ('A',O('wl_pointer',6,0),'button',[('serial','int',8),('time','int',100),('button','int',272,['left']),('state','int',1,['pressed'])],None),
 ('A',O('wl_pointer',6,0),'button',[('serial','int',9),('time','int',101),('button','int',272,['left']),('state','int',0,['released'])],None),
 ('A',O('wl_pointer',6,0),'motion',[('time','int',102),('surface_x','float',0.0),('surface_y','float',2.0)],None),
 ('A',O('wl_pointer',6,0),'set_cursor',[('serial','int',7),('surface','nil','wl_surface'),('hotspot_x','int',0),('hotspot_y','int',0)],None),
 ('B',O('wl_display',1,0),'get_registry',[('registry','new',O('wl_registry',2,0))],None),
 ('B',O('wl_registry',2,0),'bind',[(None,'int',1),(None,'str','wl_compositor'),(None,'int',4),(None,'new',O('wl_compositor',3,0))],None),
 ('B',O('wl_compositor',3,0),'create_surface',[('id','new',O('wl_surface',4,0))],None),
 ('B',O('wl_surface',4,0),'commit',[],None),
 ('B',O('wl_surface',4,0),'set_buffer_scale',[('scale','int',0)],None),
]
assert len(U)==len(lines)
import fnmatch
def wild(p): return lambda s: fnmatch.fnmatchcase(s,p)
def any_(ps,ns=()): return lambda x: any(p(x) for p in ps) and not any(n(x) for n in ns)
ALL=lambda x: True
conn_atoms=[('',ALL),('A: ',lambda c:c=='A'),('B:',lambda c:c=='B'),('*:',ALL),('[A, B]:',lambda c:c in 'AB'),('[* ! A]:',lambda c:c!='A')]
obj_atoms=[('',ALL),('wl_surface',lambda o:o[0]=='wl_surface'),('wl_*',lambda o:o[0].startswith('wl_')),('*',ALL),('4',lambda o:o[1]==4),('4a',lambda o:o[1:]==(4,0)),('4b',lambda o:o[1:]==(4,1)),('@4',lambda o:o[1]==4),('wl_surface@',lambda o:o[0]=='wl_surface'),('[wl_surface, 3]',lambda o:o[0]=='wl_surface' or o[1]==3),('[wl_* ! wl_surface]',lambda o:o[0].startswith('wl_') and o[0]!='wl_surface'),('[4 ! 4b]',lambda o:o[1]==4 and o[2]!=1)]
name_atoms=[(None,ALL),('',ALL),('commit',lambda n:n=='commit'),('set_*',lambda n:n.startswith('set_')),('*',ALL),('new',lambda n:n=='new'),('destroyed',lambda n:n=='destroyed'),('[commit, attach]',lambda n:n in('commit','attach')),('[* ! commit]',lambda n:n!='commit')]
# arg item predicates on a single arg tuple
def isint(v): return lambda a: (a[1] in('int','fd') and a[2]==v) or (a[1]=='float' and a[2]==v) or (a[1] in('obj','new') and a[2][1]==v)
def named(n): return lambda a: a[0]==n
def AND(*f): return lambda a: all(g(a) for g in f)
def OR(*f): return lambda a: any(g(a) for g in f)
def word(w): return lambda a: (a[1]=='int' and len(a)>3 and w in a[3]) or (a[1] in('obj','new') and a[2][0]==w) or (a[1]=='nil' and a[2]==w)
isnil=lambda a:a[1]=='nil'
def argl(pos,neg=()): return lambda args: all(any(p(a) for a in args) for p in pos) and not any(n(a) for n in neg for a in args)
arg_atoms=[(None,ALL),('()',ALL),('(0)',argl([isint(0)])),('(x=)',argl([named('x')])),('(x=0)',argl([AND(named('x'),isint(0))])),('(x=0, y=0)',argl([AND(named('x'),isint(0)),AND(named('y'),isint(0))])),('([x=0, scale=0])',argl([OR(AND(named('x'),isint(0)),AND(named('scale'),isint(0)))])),('(nil)',argl([isnil])),('(wl_buffer)',argl([word('wl_buffer')])),('(pressed)',argl([word('pressed')])),('(state=pressed)',argl([AND(named('state'),word('pressed'))])),('("wl_seat")',argl([lambda a:a[1]=='str' and a[2]=='wl_seat'])),('(1.5)',argl([lambda a:a[1]=='float' and a[2]==1.5])),('(! 0)',argl([],[isint(0)])),('(0 ! x=0)',argl([isint(0)],[AND(named('x'),isint(0))])),('(=0)',argl([isint(0)])),('(state=[pressed, released])',argl([AND(named('state'),OR(word('pressed'),word('released')))])),('(@4a)',argl([lambda a:a[1] in('obj','new') and a[2][1:]==(4,0)]))]
def triples(m):
    yield (m[1],m[2],m[3])
    for a in m[3]:
        if a[1]=='new': yield (a[2],'new',[])
    if m[4]: yield (m[4],'destroyed',[])
def pattern(c,o,n,a):
    def f(m):
        if not c[1](m[0]): return False
        return any(o[1](t[0]) and n[1](t[1]) and a[1](t[2]) for t in triples(m))
    return f
def bare(c,o):
    def f(m):
        if not c[1](m[0]): return False
        if any(o[1](t[0]) for t in triples(m)): return True
        for a in m[3]:
            if a[1] in('obj','new') and o[1](a[2]): return True
            if a[1]=='nil': return None
        return False
    return f
n=0; bad=0; dc=0
import collections
badex=collections.OrderedDict()
for c in conn_atoms:
  for o in obj_atoms:
    for nm in name_atoms:
      for a in arg_atoms:
        if nm[0] is None and a[0] is None:
            if o[0]=='': continue
            text=c[0]+o[0]; ref=bare(c,o)
        else:
            text=c[0]+o[0]+('.'+nm[0] if nm[0] is not None else '')+(a[0] or '')
            ref=pattern(c,o,nm,a)
        if nm[0] in('new','destroyed') and a[0] not in(None,'()'): continue
        out,err=s.cmd('list '+text)
        if err:
            badex.setdefault('ERR '+text, err.strip()[:80]); bad+=1; continue
        got=set(l for l in out.split('\n') if l in lines)
        n+=1
        for i,m in enumerate(U):
            r=ref(m)
            if r is None: dc+=1; continue
            if r != (lines[i] in got):
                bad+=1
                badex.setdefault(text,(lines[i].strip(), 'ref',r))
                break
print('expr',n,'bad',bad,'dontcare',dc)
for k,v in list(badex.items())[:40]: print(repr(k),v)
