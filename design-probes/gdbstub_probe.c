#include <stdint.h>
#include <stddef.h>
#include <stdio.h>
#include <string.h>
typedef int32_t wl_fixed_t;
struct wl_interface; 
struct wl_message { const char *name; const char *signature; const struct wl_interface **types; };
struct wl_interface { const char *name; int version; int method_count; const struct wl_message *methods; int event_count; const struct wl_message *events; };
struct wl_object { const struct wl_interface *interface; const void *implementation; uint32_t id; };
struct wl_array { size_t size; size_t alloc; void *data; };
union wl_argument { int32_t i; uint32_t u; wl_fixed_t f; const char *s; struct wl_object *o; uint32_t n; struct wl_array *a; int32_t h; };
struct wl_list { struct wl_list *prev, *next; };
struct wl_proxy;
struct wl_closure { int count; const struct wl_message *message; uint32_t opcode; uint32_t sender_id; union wl_argument args[20]; struct wl_list link; struct wl_proxy *proxy; struct wl_array extra[0]; };
struct wl_connection { int fd; int want_flush; };
struct wl_display { struct wl_connection *connection; };
struct wl_client { struct wl_connection *connection; };
struct wl_resource { struct wl_object object; struct wl_client *client; };

void __attribute__((noinline)) wl_closure_invoke(struct wl_closure *closure, uint32_t flags, struct wl_object *target, uint32_t opcode, void *data) { asm volatile("" ::: "memory"); }
void __attribute__((noinline)) wl_closure_dispatch(struct wl_closure *closure, void* dispatcher, struct wl_object *target, uint32_t opcode) { asm volatile("" ::: "memory"); }
int __attribute__((noinline)) serialize_closure(struct wl_closure *closure, uint32_t *buffer, size_t buffer_count) { asm volatile("" ::: "memory"); return 0; }
int __attribute__((noinline)) wl_closure_send(struct wl_closure *closure, struct wl_connection *connection) { return serialize_closure(closure, NULL, 0); }
void __attribute__((noinline)) wl_connection_destroy(struct wl_connection *connection) { asm volatile("" ::: "memory"); }
void __attribute__((noinline)) dispatch_event(struct wl_display *display, struct wl_closure *closure, struct wl_object *target) { wl_closure_invoke(closure, 1, target, closure->opcode, NULL); }
void __attribute__((noinline)) wl_client_connection_data(struct wl_closure *closure, struct wl_object *target) { wl_closure_invoke(closure, 2, target, closure->opcode, NULL); }

int main(void) {
  static struct wl_interface surf = {"wl_surface", 4, 0, NULL, 0, NULL};
  static struct wl_interface kb = {"wl_keyboard", 4, 0, NULL, 0, NULL};
  static const struct wl_interface *types[] = {NULL, &surf, NULL, NULL};
  static struct wl_message enter = {"enter", "uoau", types};
  struct wl_connection conn = {0,0}; struct wl_display disp = {&conn};
  struct wl_client client = {&conn};
  struct wl_resource res = {{&kb, NULL, 7}, &client};
  struct wl_object surfobj = {&surf, NULL, 5};
  int keys[3] = {69, 420, 7};
  struct wl_array arr = {sizeof keys, sizeof keys, keys};
  struct wl_closure c; memset(&c, 0, sizeof c);
  c.count = 4; c.message = &enter; c.opcode = 1; c.sender_id = 7;
  c.args[0].u = 1234; c.args[1].o = &surfobj; c.args[2].a = &arr; c.args[3].u = 99;
  wl_closure_send(&c, &conn);
  wl_client_connection_data(&c, &res.object);
  dispatch_event(&disp, &c, &res.object);
  wl_connection_destroy(&conn);
  struct wl_connection conn2 = {1,0};
  wl_connection_destroy(&conn2);
  return 0;
}
