import os, sys, xml.etree.ElementTree as ET, collections, itertools, logging
sys.path.insert(0,'/repo'); sys.argv=['main.py']
logging.disable(logging.CRITICAL)
from core.wl import protocol
from core.output import Null
root='/repo/resources/protocols'
def lit(v):
    v=v.strip()
    if '<<' in v:
        a,b=v.split('<<'); return int(a.strip(),0)<<int(b.strip(),0)
    return int(v,0)
cands=collections.defaultdict(list)
for d,_,fs in os.walk(root):
    for f in fs:
        if not f.endswith('.xml'): continue
        t=ET.parse(os.path.join(d,f)).getroot()
        for i in t.findall('interface'):
            msgs={}
            for m in i:
                if m.tag in('request','event'):
                    msgs[m.get('name')]=[(a.get('name'),a.get('type'),a.get('interface'),a.get('enum')) for a in m.findall('arg')]
            enums={}
            for e in i.findall('enum'):
                enums[e.get('name')]=(e.get('bitfield','false')=='true', [(x.get('name'),lit(x.get('value'))) for x in e.findall('entry')])
            cands[i.get('name')].append((int(i.get('version')),msgs,enums,os.path.join(d,f)))
top={}
for n,l in cands.items():
    mx=max(c[0] for c in l); top[n]=[c for c in l if c[0]==mx]
HAND={('wl_data_offer','set_actions','dnd_actions'):'wl_data_device_manager.dnd_action',('wl_data_offer','set_actions','preferred_action'):'wl_data_device_manager.dnd_action',
('wl_data_offer','source_actions','source_actions'):'wl_data_device_manager.dnd_action',('wl_data_offer','action','dnd_action'):'wl_data_device_manager.dnd_action',
('wl_data_source','set_actions','dnd_actions'):'wl_data_device_manager.dnd_action',('wl_data_source','action','dnd_action'):'wl_data_device_manager.dnd_action',
('wl_pointer','button','button'):'fake_enums.button',('zxdg_toplevel_v6','configure','states'):'state',('zxdg_toplevel_v6','resize','edges'):'resize_edge',
('zxdg_positioner_v6','set_constraint_adjustment','constraint_adjustment'):'constraint_adjustment',('xdg_toplevel','configure','states'):'state',('xdg_toplevel','resize','edges'):'resize_edge',
('xdg_positioner','set_constraint_adjustment','constraint_adjustment'):'constraint_adjustment',('zwlr_foreign_toplevel_handle_v1','state','state'):'state',
('org_kde_kwin_server_decoration_manager','default_mode','mode'):'mode',('org_kde_kwin_server_decoration','request_mode','mode'):'mode',('org_kde_kwin_server_decoration','mode','mode'):'mode'}
FAKE={'fake_enums':{'button':(False,[('left',0x110),('right',0x111),('middle',0x112)])}}
protocol.load_all(Null())
def enum_of(iface_cands_choice, iface, path):
    parts=[iface]+path.split('.')
    ei,en=parts[-2],parts[-1]
    if ei in FAKE: return [FAKE[ei].get(en)]
    if ei not in top: return [None]
    return [c[2].get(en) for c in top[ei]]   # any tied candidate of the other interface
def labels(enum, v):
    if enum is None: return []
    bf,entries=enum
    r=[n for n,x in entries if ((x & v) if bf else (x==v))]
    return r or (['(none)'] if bf else ['INVALID ENUM VALUE'])
checks=0; bad=[]; ties=0
for iface,cl in top.items():
    okc=[]
    for c in cl:
        good=True; local=0
        for mname,args in c[1].items():
            if (iface,mname)==('wl_registry','bind'):
                continue
            for idx,(an,at,ai,ae) in enumerate(args):
                local+=1
                try:
                    if protocol.get_arg_name(iface,mname,idx)!=an: good=False
                    if protocol.look_up_interface(iface,mname,idx)!=ai: good=False
                except RuntimeError: good=False
                e=HAND.get((iface,mname,an), ae)
                if at in('int','uint','array') :
                    vals=[0,1,2,3,4,0x110,99999,-1]
                    if e:
                        for en in enum_of(c,iface,e):
                            if en: vals+= [x for _,x in en[1]]+[a|b for (_,a),(_,b) in itertools.combinations(en[1],2)]
                    for v in set(vals):
                        got=protocol.look_up_enum(iface,mname,idx,v)
                        if e is None: exp_any=[[]]
                        else: exp_any=[labels(en,v) for en in enum_of(c,iface,e)]
                        local+=1
                        if got not in exp_any: good=False; bad.append((iface,mname,an,v,got,exp_any)) if len(cl)==1 else None
            try:
                protocol.get_arg(iface,mname,len(args)); good=False
            except RuntimeError: pass
        checks+=local
        okc.append(good)
    if len(cl)>1 and len(set(map(str,[(c[1],c[2]) for c in cl])))>1: ties+=1
    if not any(okc): bad.append(('NO CANDIDATE',iface,[c[3] for c in cl]))
print('interfaces',len(top),'checks',checks,'ties-with-diff',ties,'bad',len(bad))
for b in bad[:10]: print(b)
