import io, sys, logging
sys.path.insert(0,'/repo')
sys.argv=['main.py']
from core import ConnectionManager, matcher
from core.util import set_color_output, no_color
from core.wl import protocol, message as wm
from core.output import stream, Output
from frontends.tui import Controller
from backends.libwayland_debug_output import parse
class Sess:
    def __init__(self, color=False, filt=None, stop=None, unprocessed=True):
        set_color_output(color)
        wm.Message.base_time=None
        self.out=stream.String(); self.err=stream.String()
        self.output=Output(False, unprocessed, self.out, self.err)
        if not protocol.interfaces: protocol.load_all(self.output)
        self.cm=ConnectionManager()
        self.ctl=Controller(self.output, self.cm, filt or matcher.always, stop or matcher.never)
        self.parser=parse.Parser(self.output, self.cm)
    def feed(self, text):
        self.parser.parse_all(io.StringIO(text))
    def cmd(self, c):
        n=len(self.out.buffer); e=len(self.err.buffer)
        self.ctl.process_command(c)
        return self.out.buffer[n:], self.err.buffer[e:]
